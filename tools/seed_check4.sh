#!/bin/sh
# usage: seed_check4.sh <seeded dir name> <check id> [tier]
# one scratch clone of /repo per invocation (parallel-safe); evidence and replays redirected; /repo and /verif/evidence never touched
V=${VERIF_HOME:-/verif}; S=$V/seeded/$1; ID=$2; TIER=${3:-quick}; R=/tmp/seed/clone_$1; EV=/tmp/seed/ev4_$1
rm -rf $R $EV; git clone -q /repo $R; mkdir -p $EV/ev $EV/rp
git -C $R apply $S/patch.diff || { echo "$1: patch does not apply"; rm -rf $R $EV; exit 2; }
mkdir -p /tmp/seed/tmp4_$1; cd $V && VERIF_TMP=/tmp/seed/tmp4_$1 VERIF_EVIDENCE_DIR=$EV/ev VERIF_REPLAY_DIR=$EV/rp VERIF_REPO=$R ./check $ID --tier $TIER > /tmp/seed/check4_$1_$ID.log 2>&1; RC=$?
echo "$1 vs $ID ($TIER): exit $RC; $(grep -c '^VIOLATION' /tmp/seed/check4_$1_$ID.log) violation line(s)"
grep -A1 '^VIOLATION' /tmp/seed/check4_$1_$ID.log | head -3 | cut -c1-330
[ $RC = 2 ] && grep -vE "^\s*\|*line |^<|^\s+\|" /tmp/seed/check4_$1_$ID.log | tail -5
rm -rf $R $EV /tmp/seed/tmp4_$1
exit 0
