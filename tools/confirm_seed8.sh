#!/bin/sh
# usage: confirm_seed8.sh C07 m1   -- round 8: confirms a sub-agent's seeded fault (worktree /tmp/seed/wt8_<ID>) and files it as /verif/seeded/<ID>-r8<m>
ID=$1; M=$2
WT=/tmp/seed/wt8_$ID; OUT=/tmp/seed/out8/$ID/$M
[ -f $OUT/patch.diff ] || { echo "$ID/$M no patch"; exit 2; }
git -C $WT checkout -q HEAD -- . ; git -C $WT status --porcelain | grep -q . && { echo "worktree dirty"; exit 2; }
run_tests() { (cd $WT && PYTHONPATH=$WT/src /venv/bin/python -m pytest -q -p no:cacheprovider --continue-on-collection-errors 2>&1 | tail -1); }
demo() { (cd /tmp && timeout 900 /venv/bin/python -B $OUT/demo.py $WT/src >/tmp/seed/demo3_$ID$M.log 2>&1; echo $?); }
C0=$(demo)
git -C $WT apply $OUT/patch.diff || { echo "patch does not apply"; exit 2; }
T=$(run_tests)
C1=$(demo)
git -C $WT checkout -q HEAD -- .
echo "$ID/$M clean-demo-exit=$C0 patched-demo-exit=$C1 tests: $T"
case "$T" in *"140 passed"*) ;; *) echo "REJECT: tests"; exit 1;; esac
[ "$C0" = 0 ] && [ "$C1" = 1 ] || { echo "REJECT: demo"; exit 1; }
D=/verif/seeded/$ID-r8$M; mkdir -p $D
cp $OUT/patch.diff $OUT/demo.py $D/; cp $OUT/notes.md $D/notes.md 2>/dev/null
echo CONFIRMED
