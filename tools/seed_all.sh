#!/bin/sh
# Runs every seeded fault against the check of the property it targets; writes /verif/seeded/RESULTS.tsv
cd /verif
: > seeded/RESULTS.tsv
for d in seeded/C*-m*; do
  s=$(basename $d); id=${s%%-*}
  git -C /repo status --porcelain --untracked-files=no | grep -q . && { echo "/repo dirty"; exit 2; }
  git -C /repo apply /verif/$d/patch.diff || { echo "$s	$id	APPLY-FAILED" >> seeded/RESULTS.tsv; continue; }
  ./check $id --tier quick > /tmp/seed/all_$s.log 2>&1; rc=$?
  git -C /repo checkout -q HEAD -- .
  first=$(grep -A1 '^VIOLATION' /tmp/seed/all_$s.log | sed -n 2p | cut -c1-200)
  echo "$s	$id	exit=$rc	$first" >> seeded/RESULTS.tsv
  rm -f replays/*
done
git -C /verif checkout -q -- evidence
cat seeded/RESULTS.tsv | cut -c1-160
