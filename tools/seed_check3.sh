#!/bin/sh
# usage: seed_check2.sh <seeded dir name> <check id> [tier]
# like seed_check.sh but on a scratch clone of /repo (VERIF_REPO), so that /repo itself is never touched while other runs use it
S=/verif/seeded/$1; ID=$2; TIER=${3:-quick}; R=/tmp/seed/repo3
[ -d $R ] || git clone -q /repo $R
git -C $R fetch -q /repo HEAD && git -C $R reset -q --hard FETCH_HEAD
git -C $R apply $S/patch.diff || { echo "$1: patch does not apply"; exit 2; }
cd /verif && VERIF_EVIDENCE_DIR=/tmp/seed/ev3 VERIF_REPLAY_DIR=/tmp/seed/rp3 VERIF_REPO=$R ./check $ID --tier $TIER > /tmp/seed/check3_$1_$ID.log 2>&1; RC=$?
git -C $R reset -q --hard FETCH_HEAD
echo "$1 vs $ID ($TIER): exit $RC; $(grep -c '^VIOLATION' /tmp/seed/check3_$1_$ID.log) violation line(s)"
grep -A1 '^VIOLATION' /tmp/seed/check3_$1_$ID.log | head -3 | cut -c1-330
[ $RC = 2 ] && grep -vE "^\s*\|*line |^<|^\s+\|" /tmp/seed/check3_$1_$ID.log | tail -5
rm -f /tmp/seed/rp3/*
exit 0
