#!/bin/sh
# Runs every seeded fault (all rounds) against the quick check of the property it targets, on a scratch clone of /repo.
# Evidence and replays are redirected, /repo and /verif/evidence are never touched.  Results: /verif/seeded/RESULTS.tsv
R=/tmp/seed/repo_all; rm -rf $R; git clone -q /repo $R
export VERIF_EVIDENCE_DIR=/tmp/seed/ev_all VERIF_REPLAY_DIR=/tmp/seed/rp_all VERIF_REPO=$R
mkdir -p $VERIF_EVIDENCE_DIR $VERIF_REPLAY_DIR
cd /verif
OUT=/tmp/seed/RESULTS.new; : > $OUT
for d in seeded/C*-m* seeded/C*-r2m* seeded/C*-r3m* seeded/C*-r4m*; do
  [ -d $d ] || continue
  s=$(basename $d); id=${s%%-*}
  git -C $R reset -q --hard HEAD
  git -C $R apply /verif/$d/patch.diff || { echo "$s	$id	APPLY-FAILED" >> $OUT; continue; }
  ./check $id --tier quick > /tmp/seed/all_$s.log 2>&1; rc=$?
  first=$(grep -A1 '^VIOLATION' /tmp/seed/all_$s.log | sed -n 2p | cut -c1-200)
  echo "$s	$id	exit=$rc	$first" >> $OUT
  rm -f $VERIF_REPLAY_DIR/*
done
git -C $R reset -q --hard HEAD
cp $OUT /verif/seeded/RESULTS.tsv
