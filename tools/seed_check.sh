#!/bin/sh
# usage: seed_check.sh <seeded dir name> <check id> [tier]  -- applies the patch to /repo, runs the check, reverts
S=/verif/seeded/$1; ID=$2; TIER=${3:-quick}
git -C /repo status --porcelain --untracked-files=no | grep -q . && { echo "/repo dirty"; exit 2; }
git -C /repo apply $S/patch.diff || exit 2
cd /verif && ./check $ID --tier $TIER > /tmp/seed/check_$1_$ID.log 2>&1; RC=$?
git -C /repo checkout -q HEAD -- .
echo "$1 vs $ID ($TIER): exit $RC; $(grep -c '^VIOLATION' /tmp/seed/check_$1_$ID.log) violation line(s)"
grep -A1 '^VIOLATION' /tmp/seed/check_$1_$ID.log | head -4
[ $RC = 2 ] && tail -5 /tmp/seed/check_$1_$ID.log
git -C /verif checkout -q -- evidence 2>/dev/null; rm -f /verif/replays/*
exit 0
