#!/bin/sh
# Runs every seeded fault (all rounds) against the quick check of the property it targets, each on its own scratch clone of /repo
# (tools/seed_check4.sh: evidence and replays redirected, /repo and /verif/evidence never touched), P at a time.
# Results: /verif/seeded/RESULTS.tsv (one line per change: exit code, number of VIOLATION lines, the first violation reported)
P=${1:-3}
V=${VERIF_HOME:-/verif}; cd $V
ls -d seeded/C*-*m* | while read d; do s=$(basename $d); echo "$s ${s%%-*}"; done | xargs -P $P -L 1 sh tools/seed_check4.sh > /tmp/seed/matrix.out 2>&1
OUT=/tmp/seed/RESULTS.new; : > $OUT
for d in seeded/C*-*m*; do
  s=$(basename $d); id=${s%%-*}
  line=$(grep "^$s vs $id" /tmp/seed/matrix.out | head -1)
  rc=$(echo "$line" | sed -n 's/.*exit \([0-9]*\);.*/\1/p')
  first=$(grep -A1 '^VIOLATION' /tmp/seed/check4_${s}_$id.log 2>/dev/null | sed -n 2p | cut -c1-200)
  echo "$s	$id	exit=$rc	$first" >> $OUT
done
cp $OUT /verif/seeded/RESULTS.tsv
awk -F'\t' '{print $3}' $OUT | sort | uniq -c
