---------------------------- MODULE SequenceStart ----------------------------
(* Sequence starts (property C12).  A generation is a short behaviour                          *)
(*      Draw* ; Result(kind, value, seq1, seq2) ; FromValues(value2)                           *)
(* Draw is one request to the random source; Result is what generate() returned; FromValues    *)
(* is what the peer reconstructs from the wire components.  The components travel through the  *)
(* EO number codec (EoNumbersR, R = 253), so "fits its field" is tied to C07, not to literals.  *)
EXTENDS Integers, Sequences
N == INSTANCE EoNumbersR WITH R <- 253

KINDS == {"init", "ping", "account"}
MaxValue(kind) == CASE kind = "init" -> 1756 [] kind = "ping" -> 1756 [] kind = "account" -> 239

\* x survives a w-byte EO field
Transmittable(x, w) == /\ x >= 0 /\ x < N!Pow(w)
                       /\ N!DecodeInt(SubSeq(N!EncodeInt(x), 1, w)) = x

\* a request to the random source is answerable (never an empty range) and answered in range
DrawOK(lo, hi, ret) == lo < hi /\ lo <= ret /\ ret < hi

Reconstruct(kind, value, s1, s2) == CASE kind = "init" -> 7 * s1 + s2 - 13
                                      [] kind = "ping" -> s1 - s2
                                      [] kind = "account" -> value      \* the value itself is the wire component
ResultOK(kind, value, s1, s2) ==
  /\ value \in 0..MaxValue(kind)
  /\ CASE kind = "init"    -> Transmittable(s1, 1) /\ Transmittable(s2, 1)     \* two chars
       [] kind = "ping"    -> Transmittable(s1, 2) /\ Transmittable(s2, 1)     \* a short and a char
       [] kind = "account" -> Transmittable(value, 1)                          \* one char
  /\ Reconstruct(kind, value, s1, s2) = value

\* ---- the behaviour as a state machine ----
VARIABLES phase, kind, ndraws, value, seq1, seq2
vars == <<phase, kind, ndraws, value, seq1, seq2>>
Init == phase = "drawing" /\ kind \in KINDS /\ ndraws = 0 /\ value = -1 /\ seq1 = -1 /\ seq2 = -1
Draw(lo, hi, ret) == phase = "drawing" /\ DrawOK(lo, hi, ret) /\ ndraws' = ndraws + 1 /\ UNCHANGED <<phase, kind, value, seq1, seq2>>
Result(v, s1, s2) == phase = "drawing" /\ ResultOK(kind, v, s1, s2) /\ phase' = "sent"
                       /\ value' = v /\ seq1' = s1 /\ seq2' = s2 /\ UNCHANGED <<kind, ndraws>>
FromValues(v2) == phase = "sent" /\ v2 = Reconstruct(kind, value, seq1, seq2) /\ v2 = value /\ phase' = "done"
                    /\ UNCHANGED <<kind, ndraws, value, seq1, seq2>>
=============================================================================
