CONSTANTS
  DEPTH = 3
  EMIT = TRUE
SPECIFICATION Spec
CHECK_DEADLOCK FALSE
INVARIANT MembersNeverChange
INVARIANT SameMemberSameObject
INVARIANT ResultIsOfItsEnum
INVARIANT UnrecognizedOnlyWhenUndeclared
INVARIANT Emit
