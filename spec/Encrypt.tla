---------------------------- MODULE Encrypt ----------------------------
(* Packet-encryption primitives (property C10) as functions on byte strings, and a pipeline  *)
(* machine that applies and undoes them.                                                      *)
EXTENDS EoBytes, FiniteSets

\* 1-based: odd target positions take the front half in order, even ones the back half backwards
Interleave(s) == LET n == Len(s)
                 IN  [p \in 1..n |-> IF p % 2 = 1 THEN s[(p + 1) \div 2] ELSE s[n - (p \div 2) + 1]]
\* the mirror image: first the odd source positions, then the even ones from the back
Deinterleave(s) == LET n == Len(s)
                       h == (n + 1) \div 2          \* number of odd positions
                       lastEven == IF n % 2 = 0 THEN n ELSE n - 1
                   IN  [q \in 1..n |-> IF q <= h THEN s[2 * q - 1] ELSE s[lastEven - 2 * (q - h - 1)]]

FlipByte(b) == IF b % 128 = 0 THEN b ELSE (b + 128) % 256
FlipMsb(s) == [i \in 1..Len(s) |-> FlipByte(s[i])]

IsMult(b, m) == b % m = 0
\* start / end of the maximal run of multiples of m that contains position i
RECURSIVE RunStart(_, _, _)
RunStart(s, m, i) == IF i > 1 /\ IsMult(s[i - 1], m) THEN RunStart(s, m, i - 1) ELSE i
RECURSIVE RunEnd(_, _, _)
RunEnd(s, m, i) == IF i < Len(s) /\ IsMult(s[i + 1], m) THEN RunEnd(s, m, i + 1) ELSE i
\* m > 0
SwapPos(s, m) == [i \in 1..Len(s) |-> IF IsMult(s[i], m) THEN s[RunStart(s, m, i) + RunEnd(s, m, i) - i] ELSE s[i]]
\* result record: outcome + data; negative multiples are refused and leave the data alone
SwapMultiples(s, m) == IF m < 0 THEN [exc |-> "ValueError", data |-> s]
                       ELSE IF m = 0 THEN [exc |-> "", data |-> s]
                       ELSE [exc |-> "", data |-> SwapPos(s, m)]

\* ---- one pipeline step: op is <<name, m>> ----
ApplyOp(s, op) ==
  CASE op[1] = "interleave"   -> [exc |-> "", data |-> Interleave(s)]
    [] op[1] = "deinterleave" -> [exc |-> "", data |-> Deinterleave(s)]
    [] op[1] = "flip_msb"     -> [exc |-> "", data |-> FlipMsb(s)]
    [] op[1] = "swap_multiples" -> SwapMultiples(s, op[2])
InverseOp(op) == CASE op[1] = "interleave" -> <<"deinterleave", 0>>
                   [] op[1] = "deinterleave" -> <<"interleave", 0>>
                   [] OTHER -> op

\* ---- C10 theorems, as predicates of one byte string ----
Iota(n) == [i \in 1..n |-> i]
WeaveInverse(s) == Deinterleave(Interleave(s)) = s /\ Interleave(Deinterleave(s)) = s
\* permutation of positions that depends only on the length
WeavePerm(s) == LET n == Len(s)
                    pi == Interleave(Iota(n))
                    pd == Deinterleave(Iota(n))
                IN  /\ Len(Interleave(s)) = n /\ Len(Deinterleave(s)) = n
                    /\ {pi[i] : i \in 1..n} = 1..n /\ {pd[i] : i \in 1..n} = 1..n
                    /\ \A p \in 1..n : Interleave(s)[p] = s[pi[p]] /\ Deinterleave(s)[p] = s[pd[p]]
FlipInvolution(s) == /\ FlipMsb(FlipMsb(s)) = s
                     /\ \A i \in 1..Len(s) : (FlipMsb(s)[i] = s[i]) <=> s[i] \in {0, 128}
SwapInvolution(s, m) == LET r == SwapPos(s, m)
                        IN  /\ SwapPos(r, m) = s
                            /\ Len(r) = Len(s)
                            /\ \A b \in {s[i] : i \in 1..Len(s)} : Count(r, b) = Count(s, b)
                            /\ \A i \in 1..Len(s) : ~IsMult(s[i], m) => r[i] = s[i]
=============================================================================
