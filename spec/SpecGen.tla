---------------------------- MODULE SpecGen ----------------------------
(* A builder machine whose behaviours are eo-protocol programs (DESIGN.md section 5).  It composes   *)
(* instruction templates FREELY - it knows nothing about which compositions are legal; legality is    *)
(* decided afterwards, and independently, by ProtoGrammar!Violations.  So the same enumeration yields *)
(* the valid programs (corpus for C01-C03, C15, C16, C19 and the accept half of C17/C18) and the       *)
(* rule-violating ones at every placement (C17): top level, inside <chunked>, inside a <case>,         *)
(* chunked-in-case, case-in-chunked, after a <break>, in a second case, after a <switch>.              *)
(*                                                                                                   *)
(* State: a stack of open scopes (body / chunked / switch / case), the number of instructions placed. *)
EXTENDS ProtoGrammar, Json
CONSTANTS MAXINSTR,      \* instructions per program (templates that need two count as two)
          MAXDEPTH,      \* open scopes above the root
          VIOLATING,     \* include the rule-violating templates
          EXTENDED,      \* include the second tier of valid templates
          CORE           \* only the core templates (required field, optional field, dummy, break): for deep structural exploration
VARIABLES stk, n, done
gvars == <<stk, n, done>>

I0 == [tag |-> "field", name |-> "", type |-> "", over |-> "", len |-> NoLen, padded |-> FALSE, optional |-> FALSE, delimited |-> FALSE,
       trailing |-> FALSE, hard |-> NoneV, hardkind |-> "", hardtext |-> "", offset |-> 0, body |-> <<>>, field |-> "", ftype |-> "", cases |-> <<>>, explicit |-> FALSE]
Nm(k) == "f" \o ToString(k)
Ln(k) == "n" \o ToString(k)
Lit(k) == [k |-> "lit", n |-> k, ref |-> ""]
Ref(nm) == [k |-> "ref", n |-> 0, ref |-> nm]
Field(nm, t) == [I0 EXCEPT !.name = nm, !.type = t]
\* ---- templates: each is a short sequence of instructions; k = index for fresh names ----
Valid(k) ==
  << <<Field(Nm(k), "char")>>, <<[Field(Nm(k), "short") EXCEPT !.optional = TRUE]>>, <<Field(Nm(k), "string")>>,
    <<[Field(Nm(k), "string") EXCEPT !.len = Lit(2)]>>, <<[Field(Nm(k), "encoded_string") EXCEPT !.len = Lit(3), !.padded = TRUE]>>,
    <<Field(Nm(k), "Coords")>>, <<Field(Nm(k), "Color")>>, <<[Field(Nm(k), "bool") EXCEPT !.over = "short"]>>,
    <<[I0 EXCEPT !.tag = "length", !.name = Ln(k), !.type = "char"], [Field(Nm(k), "string") EXCEPT !.len = Ref(Ln(k))]>>,
    <<[I0 EXCEPT !.tag = "length", !.name = Ln(k), !.type = "short", !.offset = 1], [I0 EXCEPT !.tag = "array", !.name = Nm(k), !.type = "Coords", !.len = Ref(Ln(k))]>>,
    <<[I0 EXCEPT !.tag = "array", !.name = Nm(k), !.type = "short"]>>,
    <<[I0 EXCEPT !.tag = "array", !.name = Nm(k), !.type = "char", !.len = Lit(2)]>>,
    <<[I0 EXCEPT !.tag = "array", !.name = Nm(k), !.type = "string", !.delimited = TRUE, !.trailing = TRUE]>>,
    <<[I0 EXCEPT !.tag = "array", !.name = Nm(k), !.type = "Coords", !.delimited = TRUE, !.trailing = FALSE, !.optional = TRUE]>>,
    <<[I0 EXCEPT !.tag = "break"]>>,
    <<[I0 EXCEPT !.tag = "dummy", !.type = "char", !.hard = <<0, 0>>, !.hardkind = "ok", !.hardtext = "0"]>>,
    <<[Field("", "char") EXCEPT !.hard = <<0, 7>>, !.hardkind = "ok", !.hardtext = "7"]>>,
    <<[Field(Nm(k), "string") EXCEPT !.len = Lit(2), !.hard = <<79, 75>>, !.hardkind = "ok", !.hardtext = "OK"]>>,
    \* second tier (EXTENDED): the remaining basic types, overrides, nested chunked structs, optional structs and arrays, offsets
    <<Field(Nm(k), "byte")>>, <<Field(Nm(k), "three")>>, <<Field(Nm(k), "int")>>, <<Field(Nm(k), "blob")>>,
    <<[Field(Nm(k), "Color") EXCEPT !.over = "short"]>>, <<Field(Nm(k), "Named")>>, <<[Field(Nm(k), "Tail") EXCEPT !.optional = TRUE]>>,
    <<[Field(Nm(k), "string") EXCEPT !.len = Lit(3), !.padded = TRUE]>>, <<[Field(Nm(k), "encoded_string") EXCEPT !.optional = TRUE]>>,
    <<[I0 EXCEPT !.tag = "length", !.name = Ln(k), !.type = "byte", !.offset = -1], [Field(Nm(k), "encoded_string") EXCEPT !.len = Ref(Ln(k))]>>,
    <<[I0 EXCEPT !.tag = "length", !.name = Ln(k), !.type = "char", !.optional = TRUE], [I0 EXCEPT !.tag = "array", !.name = Nm(k), !.type = "short", !.len = Ref(Ln(k)), !.optional = TRUE]>>,
    <<[I0 EXCEPT !.tag = "array", !.name = Nm(k), !.type = "Color", !.len = Lit(2)]>>,
    <<[I0 EXCEPT !.tag = "array", !.name = Nm(k), !.type = "Item"]>>,
    <<[I0 EXCEPT !.tag = "array", !.name = Nm(k), !.type = "CPair"]>>,
    <<[I0 EXCEPT !.tag = "array", !.name = Nm(k), !.type = "bool", !.optional = TRUE]>>,
    <<[I0 EXCEPT !.tag = "array", !.name = Nm(k), !.type = "Named", !.delimited = TRUE, !.trailing = TRUE]>>,
    <<[I0 EXCEPT !.tag = "array", !.name = Nm(k), !.type = "short", !.len = Lit(2), !.delimited = TRUE, !.trailing = FALSE]>>,
    <<[Field(Nm(k), "bool") EXCEPT !.hard = TRUE, !.hardkind = "ok", !.hardtext = "true"]>>,
    <<[Field("", "string") EXCEPT !.hard = <<104, 105>>, !.hardkind = "ok", !.hardtext = "hi"]>> >>
Viol(k) ==
  << <<Field(Nm(k), "Nope")>>,                                                                     \* R2
    <<Field("f1", "char")>>,                                                                      \* R3 when f1 is in scope
    <<[I0 EXCEPT !.tag = "length", !.name = Ln(k), !.type = "char"], Field(Ln(k), "char")>>,       \* R3: the name of a <length> redeclared
    <<[Field(Nm(k), "string") EXCEPT !.len = Ref("nolen")]>>,                                      \* R4
    <<[I0 EXCEPT !.tag = "length", !.name = Ln(k), !.type = "char"], [Field(Nm(k), "string") EXCEPT !.len = Ref(Ln(k))],
      [Field("g" \o ToString(k), "string") EXCEPT !.len = Ref(Ln(k))]>>,                           \* R5
    <<Field("", "char")>>,                                                                         \* R10
    <<[Field("", "char") EXCEPT !.hardkind = "nonnumeric", !.hardtext = "abc"]>>,                  \* R11 unnamed integer
    <<[Field(Nm(k), "short") EXCEPT !.hardkind = "nonnumeric", !.hardtext = "12x"]>>,              \* R11 named integer
    <<[Field(Nm(k), "bool") EXCEPT !.hardkind = "badbool", !.hardtext = "yes"]>>,                  \* R11 named bool
    <<[Field("", "string") EXCEPT !.len = Lit(3), !.hardkind = "wronglen", !.hardtext = "ab"]>>,   \* R11 string length
    <<[Field(Nm(k), "Coords") EXCEPT !.hardkind = "ok", !.hardtext = "1"]>>,                       \* R11 value on a struct
    <<[Field(Nm(k), "char") EXCEPT !.len = Lit(2)]>>,                                              \* R12
    <<[I0 EXCEPT !.tag = "length", !.name = Ln(k), !.type = "char", !.optional = TRUE],
      [I0 EXCEPT !.tag = "array", !.name = Nm(k), !.type = "short", !.len = Ref(Ln(k))]>>,         \* R8: a required array right after its own optional <length>
    <<[I0 EXCEPT !.tag = "length", !.name = Ln(k), !.type = "char"], [Field(Nm(k), "char") EXCEPT !.len = Ref(Ln(k))]>> >>   \* R12: a length REFERENCE on a non-string field
\* sequences, not sets: TLC cannot compare records whose fields hold different kinds of values
CoreT(k) == << <<Field(Nm(k), "char")>>, <<[Field(Nm(k), "short") EXCEPT !.optional = TRUE]>>, <<[I0 EXCEPT !.tag = "break"]>>,
              <<[I0 EXCEPT !.tag = "dummy", !.type = "char", !.hard = <<0, 0>>, !.hardkind = "ok", !.hardtext = "0"]>> >>
\* the first 18 valid templates are the base alphabet; EXTENDED adds the second tier
ValidT(k) == IF EXTENDED THEN Valid(k) ELSE SubSeq(Valid(k), 1, 18)
Templates(k) == IF CORE THEN CoreT(k) ELSE IF VIOLATING THEN ValidT(k) \o Viol(k) ELSE ValidT(k)

Scope(kind) == [k |-> kind, code |-> <<>>, field |-> "", ftype |-> "", cases |-> <<>>, cv |-> [default |-> FALSE, val |-> [k |-> "num", n |-> <<0, 0>>, name |-> ""], cname |-> ""]]
Top == stk[Len(stk)]
SetTop(s) == [stk EXCEPT ![Len(stk)] = s]
Pop == SubSeq(stk, 1, Len(stk) - 1)
InCode == Top.k \in {"body", "chunked", "case"}

Init == stk = <<Scope("body")>> /\ n = 0 /\ done = FALSE
Add == /\ ~done /\ InCode
       /\ LET ts == Templates(n + 1)
          IN  \E j \in 1..Len(ts) : n + Len(ts[j]) <= MAXINSTR /\ n' = n + Len(ts[j]) /\ stk' = SetTop([Top EXCEPT !.code = Top.code \o ts[j]])
       /\ UNCHANGED done
\* structural elements count as instructions, so that every behaviour is finite
OpenChunked == ~done /\ InCode /\ Len(stk) <= MAXDEPTH /\ n < MAXINSTR /\ stk' = Append(stk, Scope("chunked")) /\ n' = n + 1 /\ UNCHANGED done
\* a switch may name any field placed so far in this scope (suitable or not), or a field that does not exist
FieldsOf(code) == {[name |-> code[x].name, type |-> code[x].type] : x \in {y \in 1..Len(code) : code[y].tag \in {"field", "array"} /\ code[y].name # ""}}
Switched(code) == {code[x].field : x \in {y \in 1..Len(code) : code[y].tag = "switch"}}
OpenSwitch == /\ ~done /\ InCode /\ Len(stk) <= MAXDEPTH /\ n < MAXINSTR
              /\ \E f \in FieldsOf(Top.code) \cup (IF VIOLATING THEN {[name |-> "nofield", type |-> ""]} ELSE {}) :
                    /\ f.name \notin Switched(Top.code)
                    /\ (~VIOLATING => (IsInt(f.type) \/ IsEnum(f.type)))
                    /\ stk' = Append(stk, [Scope("switch") EXCEPT !.field = f.name, !.ftype = f.type])
              /\ n' = n + 1 /\ UNCHANGED done
CaseHeads(ftype) ==
  (IF IsEnum(ftype) THEN {[default |-> FALSE, val |-> [k |-> "name", n |-> <<0, 0>>, name |-> "Red"], cname |-> "Red"],
                          [default |-> FALSE, val |-> [k |-> "name", n |-> <<0, 0>>, name |-> "Blue"], cname |-> "Blue"]}
   ELSE {[default |-> FALSE, val |-> [k |-> "num", n |-> <<0, 1>>, name |-> ""], cname |-> "1"],
         [default |-> FALSE, val |-> [k |-> "num", n |-> <<0, 2>>, name |-> ""], cname |-> "2"]})
  \cup {[default |-> TRUE, val |-> [k |-> "num", n |-> <<0, 0>>, name |-> ""], cname |-> "Default"]}
OpenCase == /\ ~done /\ Top.k = "switch" /\ Len(Top.cases) < 2
            /\ \E h \in CaseHeads(Top.ftype) :
                  /\ \A x \in 1..Len(Top.cases) : Top.cases[x].cname # h.cname      \* no duplicate case values / defaults (degenerate)
                  /\ (h.default => (VIOLATING \/ Top.cases # <<>>))
                  /\ stk' = Append(stk, [Scope("case") EXCEPT !.cv = h])
            /\ UNCHANGED <<n, done>>
Close ==
  /\ ~done /\ Len(stk) > 1
  /\ LET s == Top
         p == stk[Len(stk) - 1]
     IN  \/ s.k = "chunked" /\ stk' = Append(SubSeq(stk, 1, Len(stk) - 2), [p EXCEPT !.code = Append(p.code, [I0 EXCEPT !.tag = "chunked", !.body = s.code])])
         \/ s.k = "case" /\ stk' = Append(SubSeq(stk, 1, Len(stk) - 2),
                                          [p EXCEPT !.cases = Append(p.cases, [default |-> s.cv.default, val |-> s.cv.val, cname |-> s.cv.cname, body |-> s.code])])
         \/ s.k = "switch" /\ s.cases # <<>>
                           /\ stk' = Append(SubSeq(stk, 1, Len(stk) - 2),
                                            [p EXCEPT !.code = Append(p.code, [I0 EXCEPT !.tag = "switch", !.field = s.field, !.ftype = s.ftype, !.cases = s.cases])])
  /\ UNCHANGED <<n, done>>
Finish == ~done /\ Len(stk) = 1 /\ n >= 1 /\ done' = TRUE /\ UNCHANGED <<stk, n>>
Next == Add \/ OpenChunked \/ OpenSwitch \/ OpenCase \/ Close \/ Finish
Spec == Init /\ [][Next]_gvars

Program == stk[1].code
Viols == Violations(Program)
\* one line per finished program: the code and the verdict of the grammar
Emit == done => PrintT(ToJson([code |-> Program, violations |-> Viols, degenerate |-> Degenerate(Program, {})]))
\* vacuity: both verdicts occur
WitnessAllValid == done => Viols = {}
WitnessNoneValid == done => Viols # {}
=============================================================================
