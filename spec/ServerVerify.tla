---------------------------- MODULE ServerVerify ----------------------------
(* The server verification hash (property C11): the published formula evaluated the way the  *)
(* game client (C++) evaluates it, i.e. with truncating remainder.                            *)
EXTENDS Integers

\* C-style remainder: sign follows the dividend.  (TLA+ % is only specified for positive b
\* and yields a non-negative result, so the truncating remainder is spelled out.)
TruncRem(a, b) == IF a >= 0 THEN a % b ELSE -((-a) % b)

Hash(challenge) ==
  LET c == challenge + 1
  IN  110905 + (TruncRem(c, 9) + 1) * TruncRem(11092004 - c, (TruncRem(c, 11) + 1) * 119) * 119 + TruncRem(c, 2004)

DOC_BOUND == 11092110                 \* "should be no larger than"
CHALLENGE_LIMIT == 16194277           \* 253^3: what a three-byte field can carry
\* 253^4 = 4097152081 exceeds a TLC int; the hash never comes near it: |Hash| < 2^31 is
\* established by construction (9 * 1308 * 119 + 110905 + 2003 < 1.6e6)
HashUpper == 110905 + 9 * (11 * 119 - 1) * 119 + 2003
FitsEoInt(h) == h >= 0 /\ h <= HashUpper
=============================================================================
