---------------------------- MODULE MC_Encrypt ----------------------------
(* C10 at model level.  grow: every string up to MAXLEN over ALPHA is a state and must satisfy *)
(* the theorems; run: from every string up to RUNLEN, all pipelines of depth <= DEPTH are      *)
(* applied (Apply) and undone in reverse order with the inverses (Undo); when the stack is     *)
(* empty again the data must be the original.                                                  *)
EXTENDS Encrypt, TLC
CONSTANTS MAXLEN, RUNLEN, DEPTH
ALPHA == {0, 1, 2, 3, 6, 128, 255}
MULTS == {1, 2, 3, 128, 255, 256}
OPS == {<<"interleave", 0>>, <<"deinterleave", 0>>, <<"flip_msb", 0>>, <<"swap_multiples", 3>>, <<"swap_multiples", 2>>,
        <<"swap_multiples", 0>>, <<"swap_multiples", -1>>}
VARIABLES data, orig, stack, phase
vars == <<data, orig, stack, phase>>

Init == data = <<>> /\ orig = <<>> /\ stack = <<>> /\ phase = "grow"
Grow == phase = "grow" /\ Len(data) < MAXLEN /\ \E b \in ALPHA : data' = Append(data, b) /\ UNCHANGED <<orig, stack, phase>>
Start == phase = "grow" /\ Len(data) <= RUNLEN /\ phase' = "run" /\ orig' = data /\ UNCHANGED <<data, stack>>
Apply == phase = "run" /\ Len(stack) < DEPTH /\ \E op \in OPS :
            LET r == ApplyOp(data, op)
            IN  /\ data' = r.data
                /\ stack' = IF r.exc = "" THEN <<op>> \o stack ELSE stack     \* a refused op is not on the stack
                /\ UNCHANGED <<orig, phase>>
Undo == phase \in {"run", "undo"} /\ stack # <<>> /\ data' = ApplyOp(data, InverseOp(Head(stack))).data
          /\ stack' = Tail(stack) /\ phase' = "undo" /\ UNCHANGED orig
Next == Grow \/ Start \/ Apply \/ Undo

InvWeaveInverse == phase = "grow" => WeaveInverse(data)
InvWeavePerm    == phase = "grow" => WeavePerm(data)
InvFlip         == phase = "grow" => FlipInvolution(data)
InvSwap         == phase = "grow" => \A m \in MULTS : SwapInvolution(data, m)
InvSwapRefuse   == phase = "grow" => SwapMultiples(data, -1) = [exc |-> "ValueError", data |-> data] /\ SwapMultiples(data, 0).data = data
InvPipeline     == (phase # "grow" /\ stack = <<>>) => data = orig
InvLossless     == phase # "grow" => Len(data) = Len(orig)
=============================================================================
