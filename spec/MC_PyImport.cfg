CONSTANTS
  MODS <- IMods
  PRIVATE <- IPrivate
  FIRST <- IFirst
SPECIFICATION Spec
CHECK_DEADLOCK FALSE
INVARIANT Emit
INVARIANT EmitErr
