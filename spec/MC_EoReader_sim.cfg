CONSTANTS
  MAXDATA = 6
  DEPTH = 10
  EMIT = TRUE
  FULL = TRUE
SPECIFICATION Spec
CHECK_DEADLOCK FALSE
INVARIANT SafeInBounds
INVARIANT Emit
