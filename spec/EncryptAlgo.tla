---------------------------- MODULE EncryptAlgo ----------------------------
(* Growth: the four encryption loops transcribed as they are written in encryption_utils.py      *)
(* (index arithmetic, the two passes of the weaves, the run-length bookkeeping of swap_multiples),   *)
(* in PlusCal, and checked by TLC to compute exactly the functional definitions of Encrypt.tla for   *)
(* every input up to the bound.  This ties the SHAPE of the implementation's algorithms - where     *)
(* off-by-one errors live - to the specification, at model level.                                   *)
EXTENDS Encrypt, TLC
CONSTANTS INPUTS, MULT      \* set of byte strings; the multiple for swap_multiples

(* --algorithm EncryptLoops
variables input \in INPUTS, data = input, buffer = [x \in 1..Len(input) |-> 0], i = 0, ii = 0, seqlen = 0, k = 0, tmp = 0, which \in {"interleave", "deinterleave", "swap"};
begin
Start:
  if which = "interleave" then
    \* i, ii are 0-based as in the Python code; sequences are 1-based
    I1: while i < Len(data) do
          buffer[i + 1] := data[ii + 1]; i := i + 2; ii := ii + 1;
        end while;
    I2: i := IF Len(data) % 2 # 0 THEN i - 3 ELSE i - 1;       \* i -= 1; if odd length: i -= 2
    I3: while i >= 0 do
          buffer[i + 1] := data[ii + 1]; i := i - 2; ii := ii + 1;
        end while;
    I4: data := buffer;
  elsif which = "deinterleave" then
    D1: while i < Len(data) do
          buffer[ii + 1] := data[i + 1]; i := i + 2; ii := ii + 1;
        end while;
    D2: i := IF Len(data) % 2 # 0 THEN i - 3 ELSE i - 1;
    D3: while i >= 0 do
          buffer[ii + 1] := data[i + 1]; i := i - 2; ii := ii + 1;
        end while;
    D4: data := buffer;
  else
    \* for i in range(len(data) + 1)
    S1: while i <= Len(data) do
          if i # Len(data) /\ data[i + 1] % MULT = 0 then
            seqlen := seqlen + 1;
          else
            if seqlen > 1 then
              k := 0;
              S2: while k < seqlen \div 2 do
                    tmp := data[i - seqlen + k + 1];
                    data[i - seqlen + k + 1] := data[i - k - 1 + 1] ||
                    data[i - k - 1 + 1] := tmp;
                    k := k + 1;
                  end while;
            end if;
            S3: seqlen := 0;
          end if;
          S4: i := i + 1;
        end while;
  end if;
Done_: skip;
end algorithm; *)
\* BEGIN TRANSLATION
VARIABLES pc, input, data, buffer, i, ii, seqlen, k, tmp, which

vars == << pc, input, data, buffer, i, ii, seqlen, k, tmp, which >>

Init == (* Global variables *)
        /\ input \in INPUTS
        /\ data = input
        /\ buffer = [x \in 1..Len(input) |-> 0]
        /\ i = 0
        /\ ii = 0
        /\ seqlen = 0
        /\ k = 0
        /\ tmp = 0
        /\ which \in {"interleave", "deinterleave", "swap"}
        /\ pc = "Start"

Start == /\ pc = "Start"
         /\ IF which = "interleave"
               THEN /\ pc' = "I1"
               ELSE /\ IF which = "deinterleave"
                          THEN /\ pc' = "D1"
                          ELSE /\ pc' = "S1"
         /\ UNCHANGED << input, data, buffer, i, ii, seqlen, k, tmp, which >>

I1 == /\ pc = "I1"
      /\ IF i < Len(data)
            THEN /\ buffer' = [buffer EXCEPT ![i + 1] = data[ii + 1]]
                 /\ i' = i + 2
                 /\ ii' = ii + 1
                 /\ pc' = "I1"
            ELSE /\ pc' = "I2"
                 /\ UNCHANGED << buffer, i, ii >>
      /\ UNCHANGED << input, data, seqlen, k, tmp, which >>

I2 == /\ pc = "I2"
      /\ i' = (IF Len(data) % 2 # 0 THEN i - 3 ELSE i - 1)
      /\ pc' = "I3"
      /\ UNCHANGED << input, data, buffer, ii, seqlen, k, tmp, which >>

I3 == /\ pc = "I3"
      /\ IF i >= 0
            THEN /\ buffer' = [buffer EXCEPT ![i + 1] = data[ii + 1]]
                 /\ i' = i - 2
                 /\ ii' = ii + 1
                 /\ pc' = "I3"
            ELSE /\ pc' = "I4"
                 /\ UNCHANGED << buffer, i, ii >>
      /\ UNCHANGED << input, data, seqlen, k, tmp, which >>

I4 == /\ pc = "I4"
      /\ data' = buffer
      /\ pc' = "Done_"
      /\ UNCHANGED << input, buffer, i, ii, seqlen, k, tmp, which >>

D1 == /\ pc = "D1"
      /\ IF i < Len(data)
            THEN /\ buffer' = [buffer EXCEPT ![ii + 1] = data[i + 1]]
                 /\ i' = i + 2
                 /\ ii' = ii + 1
                 /\ pc' = "D1"
            ELSE /\ pc' = "D2"
                 /\ UNCHANGED << buffer, i, ii >>
      /\ UNCHANGED << input, data, seqlen, k, tmp, which >>

D2 == /\ pc = "D2"
      /\ i' = (IF Len(data) % 2 # 0 THEN i - 3 ELSE i - 1)
      /\ pc' = "D3"
      /\ UNCHANGED << input, data, buffer, ii, seqlen, k, tmp, which >>

D3 == /\ pc = "D3"
      /\ IF i >= 0
            THEN /\ buffer' = [buffer EXCEPT ![ii + 1] = data[i + 1]]
                 /\ i' = i - 2
                 /\ ii' = ii + 1
                 /\ pc' = "D3"
            ELSE /\ pc' = "D4"
                 /\ UNCHANGED << buffer, i, ii >>
      /\ UNCHANGED << input, data, seqlen, k, tmp, which >>

D4 == /\ pc = "D4"
      /\ data' = buffer
      /\ pc' = "Done_"
      /\ UNCHANGED << input, buffer, i, ii, seqlen, k, tmp, which >>

S1 == /\ pc = "S1"
      /\ IF i <= Len(data)
            THEN /\ IF i # Len(data) /\ data[i + 1] % MULT = 0
                       THEN /\ seqlen' = seqlen + 1
                            /\ pc' = "S4"
                            /\ k' = k
                       ELSE /\ IF seqlen > 1
                                  THEN /\ k' = 0
                                       /\ pc' = "S2"
                                  ELSE /\ pc' = "S3"
                                       /\ k' = k
                            /\ UNCHANGED seqlen
            ELSE /\ pc' = "Done_"
                 /\ UNCHANGED << seqlen, k >>
      /\ UNCHANGED << input, data, buffer, i, ii, tmp, which >>

S4 == /\ pc = "S4"
      /\ i' = i + 1
      /\ pc' = "S1"
      /\ UNCHANGED << input, data, buffer, ii, seqlen, k, tmp, which >>

S3 == /\ pc = "S3"
      /\ seqlen' = 0
      /\ pc' = "S4"
      /\ UNCHANGED << input, data, buffer, i, ii, k, tmp, which >>

S2 == /\ pc = "S2"
      /\ IF k < seqlen \div 2
            THEN /\ tmp' = data[i - seqlen + k + 1]
                 /\ data' = [data EXCEPT ![i - seqlen + k + 1] = data[i - k - 1 + 1],
                                         ![i - k - 1 + 1] = tmp']
                 /\ k' = k + 1
                 /\ pc' = "S2"
            ELSE /\ pc' = "S3"
                 /\ UNCHANGED << data, k, tmp >>
      /\ UNCHANGED << input, buffer, i, ii, seqlen, which >>

Done_ == /\ pc = "Done_"
         /\ TRUE
         /\ pc' = "Done"
         /\ UNCHANGED << input, data, buffer, i, ii, seqlen, k, tmp, which >>

(* Allow infinite stuttering to prevent deadlock on termination. *)
Terminating == pc = "Done" /\ UNCHANGED vars

Next == Start \/ I1 \/ I2 \/ I3 \/ I4 \/ D1 \/ D2 \/ D3 \/ D4 \/ S1 \/ S4
           \/ S3 \/ S2 \/ Done_
           \/ Terminating

Spec == Init /\ [][Next]_vars

Termination == <>(pc = "Done")

\* END TRANSLATION
\* what the loops must have computed when they finish
AlgoCorrect == pc = "Done" =>
                 data = (CASE which = "interleave" -> Interleave(input)
                           [] which = "deinterleave" -> Deinterleave(input)
                           [] which = "swap" -> SwapMultiples(input, MULT).data)
\* indices stay inside the buffers at every step (an out-of-range access would be a TLC error anyway)
=============================================================================
