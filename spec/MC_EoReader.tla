---------------------------- MODULE MC_EoReader ----------------------------
(* Bounded instance for C05: every data string up to MAXDATA over {0x00,0x01,0xFE,0xFF} x every   *)
(* sequence of up to DEPTH calls (typed reads, over-reads, mode switches, next_chunk, slices, on  *)
(* any live reader).  Safety: InBounds; action properties Independent / DataImmutable.  Maximal    *)
(* behaviours are emitted (data + calls) for replay on the real EoReader.                          *)
EXTENDS EoReader, TLC, Json
CONSTANTS MAXDATA, DEPTH, EMIT, FULL
VARIABLES data, calls, growing
vars == <<readers, ret, exc, data, calls, growing>>
ALPHA == {0, 1, 254, 255}

Base(i) == {[op |-> "get_byte", r |-> i], [op |-> "get_bytes", r |-> i, n |-> 1], [op |-> "get_bytes", r |-> i, n |-> 9],
            [op |-> "get_char", r |-> i], [op |-> "get_short", r |-> i], [op |-> "get_int", r |-> i],
            [op |-> "get_string", r |-> i], [op |-> "get_encoded_string", r |-> i],
            [op |-> "get_fixed_string", r |-> i, n |-> 1, padded |-> FALSE], [op |-> "get_fixed_string", r |-> i, n |-> 3, padded |-> TRUE],
            [op |-> "get_fixed_encoded_string", r |-> i, n |-> 2, padded |-> TRUE],
            [op |-> "set_chunked", r |-> i, b |-> TRUE], [op |-> "set_chunked", r |-> i, b |-> FALSE], [op |-> "next_chunk", r |-> i],
            [op |-> "slice", r |-> i, index |-> None, length |-> None], [op |-> "slice", r |-> i, index |-> 1, length |-> 2],
            [op |-> "slice", r |-> i, index |-> 0, length |-> 9]}
Extra(i) == {[op |-> "get_bytes", r |-> i, n |-> 0], [op |-> "get_bytes", r |-> i, n |-> 2], [op |-> "get_three", r |-> i],
             [op |-> "get_fixed_string", r |-> i, n |-> 0, padded |-> TRUE], [op |-> "get_fixed_string", r |-> i, n |-> 9, padded |-> FALSE],
             [op |-> "get_fixed_string", r |-> i, n |-> 3, padded |-> FALSE], [op |-> "get_fixed_string", r |-> i, n |-> -1, padded |-> FALSE],
             [op |-> "get_fixed_encoded_string", r |-> i, n |-> 3, padded |-> FALSE], [op |-> "get_fixed_encoded_string", r |-> i, n |-> 9, padded |-> TRUE],
             [op |-> "get_fixed_encoded_string", r |-> i, n |-> -1, padded |-> TRUE],
             [op |-> "slice", r |-> i, index |-> 9, length |-> None], [op |-> "slice", r |-> i, index |-> None, length |-> 0],
             [op |-> "slice", r |-> i, index |-> 2, length |-> 9], [op |-> "slice", r |-> i, index |-> -1, length |-> None],
             [op |-> "slice", r |-> i, index |-> 0, length |-> -1]}
Ops(i) == IF FULL THEN Base(i) \cup Extra(i) ELSE Base(i)

Init == data = <<>> /\ growing = TRUE /\ calls = <<>> /\ RInit(<<>>)
Grow == growing /\ Len(data) < MAXDATA /\ \E b \in ALPHA : data' = Append(data, b) /\ readers' = <<NewReader(data')>> /\ ret' = 0 /\ exc' = "" /\ UNCHANGED <<calls, growing>>
Freeze == growing /\ growing' = FALSE /\ UNCHANGED <<readers, ret, exc, data, calls>>
Step == ~growing /\ Len(calls) < DEPTH /\ \E i \in 1..Len(readers) : \E c \in Ops(i) :
           Call(c) /\ calls' = Append(calls, c) /\ UNCHANGED <<data, growing>>
Next == Grow \/ Freeze \/ Step
Spec == Init /\ [][Next]_vars

SafeInBounds == InBounds
\* exhausted reads yield 0 / empty and never move the position: remaining = 0 => a read returns 0 / <<>> and pos unchanged
StepIndependent == [][\A i \in 1..Len(readers) : (calls' # calls /\ (i # calls'[Len(calls')].r \/ calls'[Len(calls')].op = "slice")) => readers'[i] = readers[i]]_vars
StepDataImmutable == [][(calls' # calls) => \A i \in 1..Len(readers) : readers'[i].data = readers[i].data]_vars
SliceFresh == [][(calls' # calls /\ calls'[Len(calls')].op = "slice" /\ exc' = "") =>
                    LET n == readers'[Len(readers')] IN n.pos = 0 /\ ~n.chunked /\ n.cs = 0]_vars
Emit == (EMIT /\ ~growing /\ Len(calls) = DEPTH) => PrintT(ToJson([data |-> data, calls |-> calls]))
=============================================================================
