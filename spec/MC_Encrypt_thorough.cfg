CONSTANTS
  MAXLEN = 7
  RUNLEN = 5
  DEPTH = 4
INIT Init
NEXT Next
CHECK_DEADLOCK FALSE
INVARIANT InvWeaveInverse
INVARIANT InvWeavePerm
INVARIANT InvFlip
INVARIANT InvSwap
INVARIANT InvSwapRefuse
INVARIANT InvPipeline
INVARIANT InvLossless
