---------------------------- MODULE Bulk_Encrypt ----------------------------
(* C10 binding.                                                                              *)
(*  fn    rows [s, m, interleave(s), deinterleave(s), flip_msb(s), swap_multiples(s,m), exc]  *)
(*  pipe  rows [s0, steps, undone]; steps = <<[op, m, data after, exc]>> recorded while a      *)
(*        pipeline and then its inverses in reverse order ran on one bytearray; undone = 1 if   *)
(*        the whole pipeline was undone (then the final data must be s0 - the property itself) *)
EXTENDS Encrypt, TLC

FnBad(r) == LET s == r[1]
                sw == SwapMultiples(s, r[2])
            IN  \/ r[3] # Interleave(s) \/ r[4] # Deinterleave(s) \/ r[5] # FlipMsb(s)
                \/ r[6] # sw.data \/ r[7] # sw.exc

RECURSIVE StepsBad(_, _, _)
StepsBad(cur, steps, i) ==
  IF i > Len(steps) THEN FALSE
  ELSE LET st == steps[i]
           r == ApplyOp(cur, <<st[1], st[2]>>)
       IN  \/ st[3] # r.data \/ st[4] # r.exc
           \/ StepsBad(st[3], steps, i + 1)
PipeBad(r) == \/ StepsBad(r[1], r[2], 1)
              \/ (r[3] = 1 /\ (IF Len(r[2]) = 0 THEN r[1] ELSE r[2][Len(r[2])][3]) # r[1])

Bad(blk) == CASE blk.kind = "fn"   -> {i \in 1..Len(blk.rows) : FnBad(blk.rows[i])}
              [] blk.kind = "pipe" -> {i \in 1..Len(blk.rows) : PipeBad(blk.rows[i])}
VARIABLES g, k
D == INSTANCE BulkDriver WITH BadRows <- Bad
Init == D!BInit
Next == D!BNext
Report == D!Report
=============================================================================
