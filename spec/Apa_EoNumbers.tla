---------------------------- MODULE Apa_EoNumbers ----------------------------
(* Whole-range C07 theorems for Apalache (unbounded integers): for EVERY 0 <= n < 253^4.    *)
(* No behavioural definitions of its own: everything comes from EoNumbersR with R = 253.     *)
EXTENDS Integers, Sequences
VARIABLE
  \* @type: Int;
  n
I == INSTANCE EoNumbersR WITH R <- 253
Init == n \in Int /\ n >= 0 /\ n < 253 * 253 * 253 * 253
Next == UNCHANGED n
ThmRoundTrip == I!RoundTripInt(n)
ThmWireSafe  == \A i \in 1..4 : I!EncodeInt(n)[i] # 0 /\ I!EncodeInt(n)[i] # 255
ThmPrefix    == I!PrefixInt(n)
\* a deliberately false statement: used by the self-test to show Apalache would object
ThmFalse     == I!EncodeInt(n)[2] # 2
=============================================================================
