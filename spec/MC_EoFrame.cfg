CONSTANTS
  MAXFRAG = 40
  NPKT = 3
SPECIFICATION Spec
VIEW View
CHECK_DEADLOCK FALSE
INVARIANT OneFrame
INVARIANT DeliveredPrefix
INVARIANT AllDelivered
INVARIANT Decoded
