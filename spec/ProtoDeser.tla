---------------------------- MODULE ProtoDeser ----------------------------
(* Small-step deserializer for eo-protocol objects (DESIGN.md Appendix A) - properties C01, C03,  *)
(* C15.  Mirror image of ProtoSer over EoReader's record: a control stack of object frames, one    *)
(* action per instruction step; nested structs, array elements and case data push a frame that     *)
(* saves the chunked-reading mode, Return restores it and records byte_size, Raise unwinds.         *)
(* Nothing is chosen here: the behaviour is a function of the bytes.                               *)
EXTENDS ProtoAst
CONSTANT WITHSIZE         \* record byte_size (_size) in every deserialized object
CONSTANT LOOPBOUND        \* array counts above this end the behaviour in status "bound" (DESIGN 6 C03 residual)
RD == INSTANCE EoReader WITH readers <- <<>>, ret <- 0, exc <- ""

VARIABLES r,        \* one reader record [data, pos, chunked, cs]
          dstack,   \* <<frame>>, innermost last
          dstatus,  \* "running" | "raising" | "done" | "bound"
          dexc,     \* "" | "ValueError" | "RuntimeError" | "Fault"
          dfuel,    \* primitive reader calls left before an injected failure (-1: never)
          dresult   \* the deserialized root object, or "None"
dvars == <<r, dstack, dstatus, dexc, dfuel, dresult>>

DNewFrame(code, cls, inch, dest) ==
  [code |-> code, saved |-> r.chunked, start |-> r.pos, obj |-> [_t |-> cls], inch |-> inch,
   lens |-> [x \in {} |-> 0], dest |-> dest, cls |-> cls]
DTop == dstack[Len(dstack)]
DWithTop(f) == [dstack EXCEPT ![Len(dstack)] = f]
DBind(f, name, v) == [f EXCEPT !.obj = (name :> v) @@ f.obj]
DRest(f) == [f EXCEPT !.code = Tail(f.code)]
DAppendElem(f, name, v) == [f EXCEPT !.obj = (name :> Append(f.obj[name], v)) @@ f.obj]

DStartState(data, code, cls, chunked0, fuel0) ==
  [r |-> [data |-> data, pos |-> 0, chunked |-> chunked0, cs |-> 0, log |-> <<>>],      \* log: the chunked mode at every primitive reader call so far
   dstack |-> <<[code |-> code, saved |-> chunked0, start |-> 0, obj |-> [_t |-> cls], inch |-> FALSE,
                 lens |-> [x \in {} |-> 0], dest |-> [k |-> "root"], cls |-> cls]>>,
   dstatus |-> "running", dexc |-> "", dfuel |-> fuel0, dresult |-> NoneV]
DInit(data, code, cls, chunked0, fuel0) ==
  LET s == DStartState(data, code, cls, chunked0, fuel0)
  IN  r = s.r /\ dstack = s.dstack /\ dstatus = s.dstatus /\ dexc = s.dexc /\ dfuel = s.dfuel /\ dresult = s.dresult

\* ---- primitive reads (each consumes fuel); x = [r, ret, exc] ----
DRaise(e, f) == dstatus' = "raising" /\ dexc' = e /\ dstack' = DWithTop(f) /\ UNCHANGED <<r, dfuel, dresult>>
DSkip(f) == dstack' = DWithTop(f) /\ UNCHANGED <<r, dstatus, dexc, dfuel, dresult>>
\* perform reader call c, then continue with K(return value) as the new top frame
AfterRead(c, K(_)) ==
  LET logged == Append(r.log, r.chunked) IN
  IF dfuel = 0 THEN /\ dstatus' = "raising" /\ dexc' = "Fault" /\ dfuel' = -1 /\ r' = [r EXCEPT !.log = logged] /\ UNCHANGED <<dstack, dresult>>
  ELSE LET x == RD!RApply(r, c)
       IN  /\ dfuel' = (IF dfuel > 0 THEN dfuel - 1 ELSE dfuel)
           /\ IF x.exc = "" THEN r' = [x.r EXCEPT !.log = logged] /\ dstack' = DWithTop(K(x.ret)) /\ UNCHANGED <<dstatus, dexc, dresult>>
              ELSE dstatus' = "raising" /\ dexc' = x.exc /\ r' = [r EXCEPT !.log = logged] /\ UNCHANGED <<dstack, dresult>>

\* a length as the plain integer handed to get_fixed_*string: negative stays negative, huge is clamped above any data size
ClampLen(l) == IF LIsNeg(l) THEN -1 ELSE IF LLess(<<0, 60000>>, l) THEN 60000 ELSE LToInt(l)
NumRead(t) == IF t = "byte" THEN [op |-> "get_byte"] ELSE [op |-> "get_" \o t]
\* the reader call for a basic value of instruction i; la = [sized, abs, v]: the length argument, if any
BasicRead(i, la) ==
  IF IsNumeric(i.type) THEN NumRead(WireInt(i.type, i.over))
  ELSE IF i.type = "blob" THEN [op |-> "get_bytes", n |-> RD!Remaining(r)]
  ELSE IF i.type = "string" THEN (IF ~la.sized THEN [op |-> "get_string"]
                                  ELSE [op |-> "get_fixed_string", n |-> ClampLen(la.v), padded |-> i.padded])
  ELSE (IF ~la.sized THEN [op |-> "get_encoded_string"]
        ELSE [op |-> "get_fixed_encoded_string", n |-> ClampLen(la.v), padded |-> i.padded])
Unsized == [sized |-> FALSE, abs |-> FALSE, v |-> <<0, 0>>]
\* the value a field of instruction i holds after reading ret
Convert(i, ret) ==
  IF i.type = "byte" /\ i.over = "" THEN L(ret)
  ELSE IF i.type = "bool" THEN (IF WireInt(i.type, i.over) = "byte" THEN ret # 0 ELSE ret # <<0, 0>>)
  ELSE IF IsNumeric(i.type) /\ WireInt(i.type, i.over) = "byte" THEN L(ret)
  ELSE ret
\* f.lens[name] = [abs, v]: abs = the optional length field was absent
LenArgOf(i, f) == IF ~IsStr(i.type) \/ i.len.k = "none" THEN Unsized
                  ELSE IF i.len.k = "lit" THEN [sized |-> TRUE, abs |-> FALSE, v |-> L(i.len.n)]
                  ELSE [sized |-> TRUE, abs |-> f.lens[i.len.ref].abs, v |-> f.lens[i.len.ref].v]

\* ---- steps ----
DStepField(i, f) ==
  LET f1 == DRest(f) IN
  IF i.optional /\ RD!Remaining(r) = 0 THEN DSkip(DBind(f1, i.name, NoneV))
  ELSE IF IsStruct(i.type)
       THEN /\ dstack' = Append(DWithTop(f1), DNewFrame(TYPES[i.type].code, i.type, FALSE, [k |-> "field", name |-> i.name]))
            /\ UNCHANGED <<r, dstatus, dexc, dfuel, dresult>>
       ELSE LET la == LenArgOf(i, f)
                K(ret) == IF i.name = "" THEN f1
                          ELSE IF ~IsNone(i.hard) THEN DBind(f1, i.name, i.hard)      \* the object holds the constant
                          ELSE DBind(f1, i.name, Convert(i, ret))
            IN  IF la.sized /\ la.abs THEN DSkip(DBind(f1, i.name, NoneV))
                ELSE AfterRead(BasicRead(i, la), K)
DStepLength(i, f) ==
  LET f1 == DRest(f)
      SetLen(v) == [f1 EXCEPT !.lens = (i.name :> v) @@ f1.lens]
      K(ret) == SetLen([abs |-> FALSE, v |-> LAdd(IF i.type = "byte" THEN L(ret) ELSE ret, L(i.offset))])
  IN  IF i.optional /\ RD!Remaining(r) = 0 THEN DSkip(SetLen([abs |-> TRUE, v |-> <<0, 0>>]))
      ELSE AfterRead(NumRead(i.type), K)

\* splice the element steps of a counted array
RElemSteps(i, n) ==
  LET RECURSIVE E(_)
      E(k) == IF k > n THEN <<>>
              ELSE <<[tag |-> "relem", arr |-> i]>>
                   \o (IF i.delimited /\ (i.trailing \/ k < n) THEN <<[tag |-> "rdelim"]>> ELSE <<>>)
                   \o E(k + 1)
  IN  E(1)
ElemInstr(i) == [i EXCEPT !.tag = "elem", !.len = NoLen, !.optional = FALSE]
DStepArray(i, f) ==
  LET f1 == DRest(f)
      es == TypeFixedSize(i.type, i.over, NoLen)
      start == DBind(f1, i.name, <<>>)
      Counted(cnt) ==       \* cnt: limb pair
        IF LIsNeg(cnt) \/ cnt = <<0, 0>> THEN DSkip(start)
        ELSE IF LLess(L(LOOPBOUND), cnt) THEN dstatus' = "bound" /\ UNCHANGED <<r, dstack, dexc, dfuel, dresult>>
        ELSE DSkip([start EXCEPT !.code = RElemSteps(i, LToInt(cnt)) \o f1.code])
  IN  IF i.optional /\ RD!Remaining(r) = 0 THEN DSkip(DBind(f1, i.name, NoneV))
      ELSE IF i.len.k = "lit" THEN Counted(L(i.len.n))
      ELSE IF i.len.k = "ref" THEN (IF f.lens[i.len.ref].abs THEN DSkip(DBind(f1, i.name, NoneV)) ELSE Counted(f.lens[i.len.ref].v))
      ELSE IF ~i.delimited /\ es > 0 THEN Counted(L(RD!Remaining(r) \div es))
      ELSE DSkip([start EXCEPT !.code = <<[tag |-> "rloop", arr |-> i]>> \o f1.code])
\* while remaining > 0: element, (next_chunk if delimited)
DStepLoop(e, f) ==
  IF RD!Remaining(r) > 0
  THEN DSkip([f EXCEPT !.code = <<[tag |-> "relem", arr |-> e.arr]>> \o (IF e.arr.delimited THEN <<[tag |-> "rdelim"]>> ELSE <<>>) \o f.code])
  ELSE DSkip(DRest(f))
DStepElem(e, f) ==
  LET i == ElemInstr(e.arr)
      f1 == DRest(f)
      K(ret) == DAppendElem(f1, i.name, Convert(i, ret))
  IN  IF IsStruct(i.type)
      THEN /\ dstack' = Append(DWithTop(f1), DNewFrame(TYPES[i.type].code, i.type, FALSE, [k |-> "elem", name |-> i.name]))
           /\ UNCHANGED <<r, dstatus, dexc, dfuel, dresult>>
      ELSE AfterRead(BasicRead(i, Unsized), K)
DStepNextChunk(f) == LET K(ret) == f IN AfterRead([op |-> "next_chunk"], K)
DStepDummy(i, f) ==
  LET K(ret) == DRest(f) IN IF r.pos = f.start THEN AfterRead(BasicRead(i, Unsized), K) ELSE DSkip(DRest(f))

DCaseMatches(c, t, v) == ~c.default /\ ~IsNone(v) /\
                         (IF c.val.k = "num" THEN c.val.n = v
                          ELSE \E m \in {TYPES[t].values[x] : x \in 1..Len(TYPES[t].values)} : m.name = c.val.name /\ m.ord = v)
DSelectCase(cases, t, v) ==
  LET hit == {x \in 1..Len(cases) : DCaseMatches(cases[x], t, v)}
      dfl == {x \in 1..Len(cases) : cases[x].default}
  IN  IF hit # {} THEN CHOOSE x \in hit : \A y \in hit : x <= y
      ELSE IF dfl # {} THEN CHOOSE x \in dfl : TRUE ELSE 0
DStepSwitch(i, f) ==
  LET f1 == DRest(f)
      dname == i.field \o "_data"
      sel == DSelectCase(i.cases, i.ftype, f.obj[i.field])
  IN  IF sel = 0 \/ (sel # 0 /\ i.cases[IF sel = 0 THEN 1 ELSE sel].body = <<>>) THEN DSkip(DBind(f1, dname, NoneV))
      ELSE LET c == i.cases[sel]
           IN  /\ dstack' = Append(DWithTop(f1), DNewFrame(c.body, CaseClass(f.cls, i, c), f.inch, [k |-> "field", name |-> dname]))
               /\ UNCHANGED <<r, dstatus, dexc, dfuel, dresult>>
DStepChunked(i, f) ==
  IF f.inch THEN DSkip([f EXCEPT !.code = i.body \o Tail(f.code)])
  ELSE /\ r' = [r EXCEPT !.chunked = TRUE]
       /\ dstack' = DWithTop([f EXCEPT !.code = i.body \o <<[tag |-> "exit_chunked"]>> \o Tail(f.code), !.inch = TRUE])
       /\ UNCHANGED <<dstatus, dexc, dfuel, dresult>>
DStepExitChunked(f) == /\ r' = [r EXCEPT !.chunked = FALSE] /\ dstack' = DWithTop([DRest(f) EXCEPT !.inch = FALSE])
                       /\ UNCHANGED <<dstatus, dexc, dfuel, dresult>>

DReturn ==
  /\ dstatus = "running" /\ dstack # <<>> /\ DTop.code = <<>>
  /\ r' = [r EXCEPT !.chunked = DTop.saved]
  /\ LET done == IF WITHSIZE THEN ("_size" :> (r.pos - DTop.start)) @@ DTop.obj ELSE DTop.obj      \* byte_size
     IN  IF Len(dstack) = 1
         THEN dstack' = <<>> /\ dstatus' = "done" /\ dresult' = done /\ UNCHANGED <<dexc, dfuel>>
         ELSE LET p == dstack[Len(dstack) - 1]
                  d == DTop.dest
                  p2 == IF d.k = "field" THEN DBind(p, d.name, done) ELSE DAppendElem(p, d.name, done)
              IN  dstack' = Append(SubSeq(dstack, 1, Len(dstack) - 2), p2) /\ UNCHANGED <<dstatus, dexc, dfuel, dresult>>
DUnwind ==
  /\ dstatus = "raising" /\ dstack # <<>>
  /\ r' = [r EXCEPT !.chunked = DTop.saved]
  /\ dstack' = SubSeq(dstack, 1, Len(dstack) - 1)
  /\ dstatus' = (IF Len(dstack) = 1 THEN "done" ELSE "raising")
  /\ UNCHANGED <<dexc, dfuel, dresult>>
DStep ==
  /\ dstatus = "running" /\ dstack # <<>> /\ DTop.code # <<>>
  /\ LET f == DTop
         i == Head(f.code)
     IN  CASE i.tag = "field"   -> DStepField(i, f)
           [] i.tag = "length"  -> DStepLength(i, f)
           [] i.tag = "array"   -> DStepArray(i, f)
           [] i.tag = "rloop"   -> DStepLoop(i, f)
           [] i.tag = "relem"   -> DStepElem(i, f)
           [] i.tag = "rdelim"  -> DStepNextChunk(DRest(f))
           [] i.tag = "dummy"   -> DStepDummy(i, f)
           [] i.tag = "switch"  -> DStepSwitch(i, f)
           [] i.tag = "chunked" -> DStepChunked(i, f)
           [] i.tag = "exit_chunked" -> DStepExitChunked(f)
           [] i.tag = "break"   -> DStepNextChunk(DRest(f))
DNext == DStep \/ DReturn \/ DUnwind

\* ---- properties of the machine itself ----
DModeRestored == [][(Len(dstack') < Len(dstack)) => r'.chunked = dstack[Len(dstack)].saved]_dvars
DInBounds == r.pos >= 0 /\ r.pos <= Len(r.data) /\ RD!Remaining(r) >= 0
\* C03: the only failure is the negative-length ValueError (or an injected fault)
OnlyDocumentedError == dexc \in {"", "ValueError", "Fault"}
DTerminates == <>(dstatus \in {"done", "bound"})
=============================================================================
