CONSTANTS
  CHALLENGES = {0, 11092110}
  INITS <- MCInits
  PINGS <- MCPings
  MAXSENT = 11
  MAXPINGS = 2
  BODIES <- MCBodies
  MULTS <- MCMults
  ACCTS <- MCAccts
  MAXSSENT = 2
  MAXACCTS = 1
  POSTPONE = TRUE
  CHANCAP = 3
SPECIFICATION LSpec
VIEW View
CONSTRAINT Cap
CHECK_DEADLOCK FALSE
INVARIANT GenuineServerAccepted
INVARIANT Lockstep
INVARIANT HashFitsEoInt
INVARIANT ComponentsTransmittable
INVARIANT StartsAgreeWhenQuiet
