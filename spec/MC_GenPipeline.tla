---------------------------- MODULE MC_GenPipeline ----------------------------
EXTENDS GenPipeline, Json, TreeData       \* TreeData.tla (MCTree == <<...>>) is written by the harness next to a copy of this module
\* finished schedules are printed: the discovery order is what the harness imposes on os.walk
Emit == phase = "done" => PrintT(ToJson([order |-> [k \in 1..Len(order) |-> TREE[order[k]].dir], paths |-> DOMAIN out]))
=============================================================================
