CONSTANTS
  MAXRUN = 24
  MAXSETS = 2
  EMIT = TRUE
SPECIFICATION Spec
CHECK_DEADLOCK FALSE
INVARIANT TypeOK
INVARIANT CounterTracksServed
INVARIANT TwoPeers
INVARIANT Emit
PROPERTY Lockstep
PROPERTY UpdateKeepsCounter
