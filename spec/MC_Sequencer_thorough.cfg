CONSTANTS
  MAXRUN = 12
  MAXSETS = 3
  EMIT = TRUE
SPECIFICATION Spec
CHECK_DEADLOCK FALSE
INVARIANT TypeOK
INVARIANT CounterTracksServed
INVARIANT TwoPeers
INVARIANT Emit
PROPERTY Lockstep
PROPERTY UpdateKeepsCounter
