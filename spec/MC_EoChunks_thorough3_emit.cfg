CONSTANTS
  NCHUNKS = 3
  NFIELDS = 1
  EMIT = TRUE
  ALLPLANS = FALSE
  SMALL = TRUE
SPECIFICATION Spec
CHECK_DEADLOCK FALSE
INVARIANT Emit
