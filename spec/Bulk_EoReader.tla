---------------------------- MODULE Bulk_EoReader ----------------------------
(* C05 binding: traces observed on the real EoReader are re-run through EoReader's own operators   *)
(* and every returned value, exception class and (position, remaining, mode) of every live reader  *)
(* is compared after every call.                                                                   *)
(* row = [data, calls, obs]; obs[i] = [ret, exc, proj] with proj = <<[pos, remaining, chunked]>>     *)
(* Verdict entries <<row, event, code>>: 1 returned value, 2 exception class, 3 projection.          *)
EXTENDS Integers, Sequences, TLC, Json
RD == INSTANCE EoReader WITH readers <- <<>>, ret <- 0, exc <- ""
\* functional image of the state machine's Call (same operators)
StepF(rs, c) ==
  IF c.op = "slice"
  THEN IF RD!SliceRefused(c.index, c.length) THEN [rs |-> rs, ret |-> 0, exc |-> "ValueError"]
       ELSE [rs |-> Append(rs, RD!NewReader(RD!SliceData(rs[c.r], c.index, c.length))), ret |-> Len(rs) + 1, exc |-> ""]
  ELSE LET x == RD!RApply(rs[c.r], c) IN [rs |-> [rs EXCEPT ![c.r] = x.r], ret |-> x.ret, exc |-> x.exc]
ProjAll(rs) == [i \in 1..Len(rs) |-> RD!Proj(rs[i])]
RECURSIVE Walk(_, _, _, _, _)
Walk(k, rs, calls, obs, i) ==
  IF i > Len(calls) THEN {}
  ELSE LET x == StepF(rs, calls[i])
           o == obs[i]
           bad == (IF o.exc # x.exc THEN {<<k, i, 2>>} ELSE {})
                  \cup (IF o.exc = x.exc /\ x.exc = "" /\ ToJson(o.ret) # ToJson(x.ret) THEN   \* compared as JSON text: robust to a wrong result type
                  {<<k, i, 1>>} ELSE {})
                  \cup (IF o.proj # ProjAll(x.rs) THEN {<<k, i, 3>>} ELSE {})
       IN  IF bad # {} THEN bad ELSE Walk(k, x.rs, calls, obs, i + 1)      \* first divergence only: later state is the model's guess
Bad(blk) == UNION {Walk(k, <<RD!NewReader(blk.rows[k].data)>>, blk.rows[k].calls, blk.rows[k].obs, 1) : k \in 1..Len(blk.rows)}
VARIABLES g, k
D == INSTANCE BulkDriver WITH BadRows <- Bad
Init == D!BInit
Next == D!BNext
Report == D!Report
=============================================================================
