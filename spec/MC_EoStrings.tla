---------------------------- MODULE MC_EoStrings ----------------------------
(* C08 at model level: strings are built one byte at a time (AppendByte), every string of    *)
(* length <= MAXLEN over ALPHA is a state; plus the full table byte x position parity x       *)
(* length parity as strings p^k . b . p^m.                                                    *)
EXTENDS EoStrings, TLC
CONSTANTS MAXLEN
ALPHA == {0, 33, 34, 79, 80, 126, 127, 255}
VARIABLES s, mode
vars == <<s, mode>>
Init == \/ s = <<>> /\ mode = "grow"
        \/ \E b \in Byte, k \in 0..2, m \in 0..2 : s = Repeat(65, k) \o <<b>> \o Repeat(65, m) /\ mode = "table"
Next == mode = "grow" /\ Len(s) < MAXLEN /\ \E b \in ALPHA : s' = Append(s, b) /\ UNCHANGED mode
InvLength    == LengthPreserved(s)
InvDecEnc    == DecEnc(s)
InvEncDec    == EncDec(s)
InvShape     == Shape(s)
InvBreakSafe == BreakSafe(s)
=============================================================================
