---------------------------- MODULE MC_EoChunks ----------------------------
(* Bounded instance for C06.  build: chunks are grown field by field (AddField / CloseChunk);       *)
(* plan: a read plan is chosen per chunk; done: the invariants judge the model's own results.        *)
EXTENDS EoChunks, TLC, Json
CONSTANTS NCHUNKS, NFIELDS, EMIT, ALLPLANS, SMALL
VARIABLES chunks, cur, plans, phase
vars == <<chunks, cur, plans, phase>>

FIELDS_ALL == {[op |-> "add_char", n |-> <<0, 252>>], [op |-> "add_short", n |-> <<0, 64008>>], [op |-> "add_int", n |-> LSub(INT_MAX_L, <<0, 1>>)],
           [op |-> "add_three", n |-> <<0, 0>>],
           [op |-> "add_fixed_string", s |-> <<255, 97>>, len |-> 2, padded |-> FALSE],
           [op |-> "add_fixed_encoded_string", s |-> <<256, 255, 98>>, len |-> 3, padded |-> FALSE],
           [op |-> "add_fixed_string", s |-> <<>>, len |-> 0, padded |-> FALSE]}
TRAILING_ALL == {[op |-> "add_string", s |-> <<255, 255>>], [op |-> "add_encoded_string", s |-> <<97, 255>>], [op |-> "add_string", s |-> <<>>]}
FIELDS == IF SMALL THEN {f \in FIELDS_ALL : f.op \in {"add_char", "add_int"} \/ (f.op \in {"add_fixed_string", "add_fixed_encoded_string"} /\ f.len > 0)} ELSE FIELDS_ALL
TRAILING == IF SMALL THEN {f \in TRAILING_ALL : f.s # <<>>} ELSE TRAILING_ALL
EXTRAS == {<<>>, <<[op |-> "get_char"]>>, <<[op |-> "get_int"]>>, <<[op |-> "get_string"]>>,
           <<[op |-> "get_fixed_string", n |-> 2, padded |-> FALSE]>>, <<[op |-> "get_bytes", n |-> 3]>>,
           <<[op |-> "get_short"], [op |-> "get_encoded_string"], [op |-> "get_byte"]>>}
IsTrailing(f) == f.op \in {"add_string", "add_encoded_string"}
CurOpen == IF cur = <<>> THEN TRUE ELSE ~IsTrailing(cur[Len(cur)])

Init == chunks = <<>> /\ cur = <<>> /\ plans = <<>> /\ phase = "build"
AddField == phase = "build" /\ Len(cur) < NFIELDS /\ CurOpen /\ \E f \in FIELDS \cup TRAILING : cur' = Append(cur, f) /\ UNCHANGED <<chunks, plans, phase>>
CloseChunk == phase = "build" /\ Len(chunks) < NCHUNKS /\ chunks' = Append(chunks, cur) /\ cur' = <<>> /\ UNCHANGED <<plans, phase>>
StartPlan == phase = "build" /\ chunks # <<>> /\ cur = <<>> /\ phase' = "plan" /\ UNCHANGED <<chunks, cur, plans>>
\* unless ALLPLANS, only the last chunk is read completely without surplus (its results are what the earlier plans must not disturb)
\* one plan per chunk plus one for a chunk that does not exist (everything read there must be zero / empty)
ChoosePlan == phase = "plan" /\ Len(plans) < Len(chunks) + 1 /\
              LET c == ChunkAt(chunks, Len(plans) + 1)
                  last == Len(plans) + 1 = Len(chunks)
              IN  \E k \in 0..Len(c), e \in EXTRAS :
                    /\ (last /\ ~ALLPLANS) => (k = Len(c) /\ e = <<>>)
                    /\ plans' = Append(plans, [k |-> k, extra |-> e])
              /\ UNCHANGED <<chunks, cur, phase>>
Finish == phase = "plan" /\ Len(plans) \in {Len(chunks), Len(chunks) + 1} /\ phase' = "done" /\ UNCHANGED <<chunks, cur, plans>>
Next == AddField \/ CloseChunk \/ StartPlan \/ ChoosePlan \/ Finish
Spec == Init /\ [][Next]_vars

Res == Results(chunks, plans)
InvNoBreakInChunk == \A f \in FIELDS \cup TRAILING : NoBreakInField(f)
\* one invariant so that the model's results are computed once per finished behaviour
InvDone == phase = "done" =>
             LET res == Res
             IN  /\ \A c \in 1..Len(plans) : PrefixCorrect(ChunkAt(chunks, c), plans[c], res[c])     \* PrefixCorrect
                 /\ \A c \in 1..Len(plans) : SurplusZero(ChunkAt(chunks, c), plans[c], res[c])       \* SurplusZero
                 /\ NonInterference(chunks, plans, res)                                       \* NonInterference
Emit == (EMIT /\ phase = "done") => PrintT(ToJson([chunks |-> chunks, plans |-> plans]))
=============================================================================
