CONSTANTS
  NCHUNKS = 2
  NFIELDS = 2
  EMIT = FALSE
  ALLPLANS = FALSE
  SMALL = FALSE
SPECIFICATION Spec
CHECK_DEADLOCK FALSE
INVARIANT InvNoBreakInChunk
INVARIANT InvDone
