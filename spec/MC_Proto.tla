---------------------------- MODULE MC_Proto ----------------------------
(* Bounded instances of the protocol machines over a corpus of programs loaded from JSON          *)
(* (IOEnv.CORPUS_FILE = [types, progs]).  MODE selects the experiment:                             *)
(*   "ser"      serialize every object of the bounded domains in both entry modes       (C02 C15)  *)
(*   "rt"       ... then deserialize the bytes unchanged; RoundTrip on the model              (C01)  *)
(*   "hostile"  ... then deserialize every single-fault corruption of the bytes          (C03 C15)  *)
(*   "bytes"    deserialize every short byte string over {0,1,2,3,254,255}                     (C03)  *)
(* FUELS / DFUELS: injected failure points of the writer / reader (-1 = none)               (C15)  *)
(* Finished behaviours are printed (EMIT) for replay against the generated code.                   *)
EXTENDS ProtoSer, ProtoDeser, ProtoInvalid, ProtoObject, Json, IOUtils
CONSTANTS MODE, NFUEL, NDFUEL, EMIT, RICH, MAXBYTES, LIGHT, HDEPTH
\* injected failure points: none (-1), or failing the k-th primitive call for k < NFUEL / NDFUEL
FUELS == {-1} \cup 0..(NFUEL - 1)
DFUELS == {-1} \cup 0..(NDFUEL - 1)
VARIABLES phase, p, san0, fuel0, ch0, dfuel0, cid, inv   \* inv: the injected violation (mode "invalid"), or "None"

Corpus == JsonDeserialize(IOEnv.CORPUS_FILE)
MCTypes == Corpus.types
Progs == Corpus.progs
\* modes "given" / "givenbytes": cases recorded by the harness (pattern V): [p, obj, san0] / [p, data, ch0]; cid = index of the case
Cases == IF MODE \in {"given", "givenrt", "givenbytes"} THEN JsonDeserialize(IOEnv.CASES_FILE) ELSE <<>>
vars == <<w, stack, status, exc, fuel, result, r, dstack, dstatus, dexc, dfuel, dresult, phase, p, san0, fuel0, ch0, dfuel0, cid, inv>>
meta == <<p, san0, fuel0>>

TinyDoms == [byte |-> {L(255)}, char |-> {L(1)}, short |-> {L(64008)}, three |-> {L(3)}, int |-> {L(4)}, strs |-> {<<98, 99>>}, alpha |-> {97},
             counts |-> {0, 2}, blobs |-> {<<7, 1>>}, unrec |-> L(7), strict |-> FALSE]
MCDoms == IF MODE = "mut" THEN TinyDoms ELSE IF RICH
  THEN [byte |-> {L(0), L(1), L(254), L(255)}, char |-> {L(0), L(1), L(252)}, short |-> {L(0), L(253), L(64008)},
        three |-> {L(0), L(64009), <<247, 6884>>}, int |-> {L(0), <<247, 6885>>, LSub(INT_MAX_L, <<0, 1>>)},
        strs |-> {<<>>, <<97>>, <<255, 126>>, <<256, 98>>}, alpha |-> {97, 255}, counts |-> 0..2,
        blobs |-> {<<>>, <<0>>, <<255, 1>>}, unrec |-> L(7), strict |-> FALSE]
  ELSE [byte |-> {L(1), L(255)}, char |-> {L(1), L(252)}, short |-> {L(2), L(64008)}, three |-> {L(3), L(64009), <<247, 6884>>},
        int |-> {L(4), <<247, 6885>>, LSub(INT_MAX_L, <<0, 1>>)}, strs |-> {<<97>>, <<98, 99>>}, alpha |-> {97, 98}, counts |-> 1..2,
        blobs |-> {<<1>>, <<7, 1>>}, unrec |-> L(7), strict |-> TRUE]

Idle == [r |-> [data |-> <<>>, pos |-> 0, chunked |-> FALSE, cs |-> 0, log |-> <<>>], dstack |-> <<>>, dstatus |-> "idle", dexc |-> "", dfuel |-> -1, dresult |-> NoneV]
SetDeser(s) == r' = s.r /\ dstack' = s.dstack /\ dstatus' = s.dstatus /\ dexc' = s.dexc /\ dfuel' = s.dfuel /\ dresult' = s.dresult
ByteStrings(n) == UNION {[1..k -> {0, 1, 2, 3, 254, 255}] : k \in 0..n}      \* (3 = EO char 2: the second declared case / enum member)

Init ==
  /\ inv = [what |-> "", stray |-> FALSE]
  /\ fuel0 \in FUELS
  /\ IF MODE \in {"given", "givenrt"}
     THEN /\ cid \in 1..Len(Cases) /\ p = Cases[cid].p /\ phase = "ser" /\ san0 = Cases[cid].san0 /\ ch0 = FALSE /\ dfuel0 = -1
          /\ SInit(Progs[p].code, Progs[p].name, Given(Cases[cid].obj), san0, fuel0)
          /\ r = Idle.r /\ dstack = Idle.dstack /\ dstatus = Idle.dstatus /\ dexc = Idle.dexc /\ dfuel = Idle.dfuel /\ dresult = Idle.dresult
     ELSE IF MODE = "givenbytes"
     THEN /\ cid \in 1..Len(Cases) /\ p = Cases[cid].p /\ phase = "de" /\ san0 = FALSE /\ ch0 = Cases[cid].ch0 /\ dfuel0 = -1
          /\ w = [bytes |-> <<>>, san |-> FALSE, log |-> <<>>] /\ stack = <<>> /\ status = "idle" /\ exc = "" /\ fuel = -1 /\ result = NoneV
          /\ DInit(Cases[cid].data, Progs[p].code, Progs[p].name, ch0, dfuel0)
     ELSE /\ cid = 0 /\ p \in {i \in 1..Len(Progs) : MODE # "rt" \/ Progs[i].rt}
  /\ IF MODE \in {"given", "givenrt", "givenbytes"} THEN TRUE ELSE IF MODE = "bytes"
     THEN /\ phase = "de" /\ san0 = FALSE /\ ch0 \in BOOLEAN /\ dfuel0 \in DFUELS
          /\ w = [bytes |-> <<>>, san |-> FALSE, log |-> <<>>] /\ stack = <<>> /\ status = "idle" /\ exc = "" /\ fuel = -1 /\ result = NoneV
          /\ \E data \in ByteStrings(MAXBYTES) : DInit(data, Progs[p].code, Progs[p].name, ch0, dfuel0)
     ELSE /\ phase = "ser" /\ san0 \in (IF MODE \in {"invalid", "mut"} THEN {FALSE} ELSE BOOLEAN) /\ ch0 = FALSE /\ dfuel0 = -1
          /\ SInit(Progs[p].code, Progs[p].name, Free, san0, fuel0)
          /\ r = Idle.r /\ dstack = Idle.dstack /\ dstatus = Idle.dstatus /\ dexc = Idle.dexc /\ dfuel = Idle.dfuel /\ dresult = Idle.dresult

Subst(s, i, b) == [s EXCEPT ![i] = b]
Insert(s, i, b) == SubSeq(s, 1, i - 1) \o <<b>> \o SubSeq(s, i, Len(s))
Corruptions(s) ==
  IF MODE \in {"rt", "givenrt"} THEN {s}
  ELSE IF LIGHT THEN {s} \cup {SubSeq(s, 1, k) : k \in 0..(Len(s) - 1)} \cup {Subst(s, i, b) : i \in 1..Len(s), b \in {0, 255}}
                     \cup {Insert(s, i, 254) : i \in 1..(Len(s) + 1)} \cup {s \o <<1, 255, 1>>}
  ELSE {s} \cup {SubSeq(s, 1, k) : k \in 0..(Len(s) - 1)}
       \cup {Subst(s, i, b) : i \in 1..Len(s), b \in {0, 1, 254, 255}}
       \cup {Insert(s, i, b) : i \in 1..(Len(s) + 1), b \in {0, 254, 255}}
       \cup {s \o j : j \in {<<0>>, <<255>>, <<254, 254>>, <<1, 255, 1>>}}

serIdle == <<r, dstack, dstatus, dexc, dfuel, dresult, phase, p, san0, fuel0, ch0, dfuel0, cid, inv>>
SerStep == phase \in {"ser", "ser2"} /\ Step /\ UNCHANGED serIdle
SerReturn == phase \in {"ser", "ser2"} /\ Return /\ UNCHANGED serIdle
SerUnwind == phase \in {"ser", "ser2"} /\ Unwind /\ UNCHANGED serIdle
\* mode "mut": a history of attempted mutations of the finished instance; the instance (result) and its bytes (w.bytes) never change
ToMut == /\ phase = "ser" /\ status = "done" /\ exc = "" /\ MODE = "mut" /\ phase' = "mut" /\ inv' = [hist |-> <<>>]
         /\ UNCHANGED <<w, stack, status, exc, fuel, result, r, dstack, dstatus, dexc, dfuel, dresult, p, san0, fuel0, ch0, dfuel0, cid>>
MutStep == /\ phase = "mut" /\ Len(inv.hist) < HDEPTH
           /\ LET ts == Targets(Progs[p].code, result, <<>>) \o Others
               IN  \E k \in 1..Len(ts) : inv' = [hist |-> Append(inv.hist, [act |-> ts[k], outcome |-> Outcome(ts[k])])]
           /\ UNCHANGED <<w, stack, status, exc, fuel, result, r, dstack, dstatus, dexc, dfuel, dresult, phase, p, san0, fuel0, ch0, dfuel0, cid>>
\* mode "invalid": the valid object just serialized is violated in one place and serialized again
ToInvalid == /\ phase = "ser" /\ status = "done" /\ exc = "" /\ MODE = "invalid"
             /\ LET ms == Mutations(Progs[p].code, Progs[p].name, result)
                 IN  \E k \in 1..Len(ms) :
                       /\ inv' = [what |-> ms[k].what, stray |-> ms[k].stray]
                       /\ w' = [bytes |-> <<>>, san |-> san0, log |-> <<>>]
                       /\ stack' = <<[code |-> Progs[p].code, saved |-> san0, start |-> 0, obj |-> [_t |-> Progs[p].name], given |-> Given(ms[k].obj),
                                      inch |-> FALSE, missing |-> FALSE, lens |-> [x \in {} |-> 0], dest |-> [k |-> "root"], cls |-> Progs[p].name]>>
                       /\ status' = "running" /\ exc' = "" /\ fuel' = -1 /\ result' = ms[k].obj
             /\ phase' = "ser2"
             /\ UNCHANGED <<r, dstack, dstatus, dexc, dfuel, dresult, p, san0, fuel0, ch0, dfuel0, cid>>
ToDeser == /\ phase = "ser" /\ status = "done" /\ exc = "" /\ MODE \in {"rt", "hostile", "givenrt"}
           /\ phase' = "de"
           /\ \E data \in Corruptions(w.bytes) : \E c \in (IF MODE \in {"rt", "givenrt"} \/ LIGHT THEN {FALSE} ELSE BOOLEAN) : \E df \in DFUELS :
                ch0' = c /\ dfuel0' = df /\ SetDeser(DStartState(data, Progs[p].code, Progs[p].name, c, df))
           /\ UNCHANGED <<w, stack, status, exc, fuel, result, p, san0, fuel0, cid, inv>>
deIdle == <<w, stack, status, exc, fuel, result, phase, p, san0, fuel0, ch0, dfuel0, cid, inv>>
DeStep == phase = "de" /\ DStep /\ UNCHANGED deIdle
DeReturn == phase = "de" /\ DReturn /\ UNCHANGED deIdle
DeUnwind == phase = "de" /\ DUnwind /\ UNCHANGED deIdle
Next == SerStep \/ SerReturn \/ SerUnwind \/ ToInvalid \/ ToMut \/ MutStep \/ ToDeser \/ DeStep \/ DeReturn \/ DeUnwind
Spec == Init /\ [][Next]_vars
FairSpec == Spec /\ WF_vars(Next)

\* ---- properties ----
PModeRestored == ModeRestored                    \* every frame exit, serializer
PDModeRestored == DModeRestored                  \* every frame exit, deserializer
SerLeavesModeAsFound == (phase = "ser" /\ status = "done") => w.san = san0
DeLeavesModeAsFound == (phase = "de" /\ dstatus = "done") => r.chunked = ch0
PInBounds == DInBounds
POnlyDocumentedError == OnlyDocumentedError
PNoSilentFailure == NoSilentFailure
\* chunked sections sanitise: a model-level format fact - after a successful serialization that started unsanitised, no string byte
\* written inside a chunked section is 0xFF (checked through the deserializer in RoundTrip); and the round trip itself:
RoundTripHere == /\ dexc = ""
                 /\ ToString(dresult) = ToString(result)
                 /\ r.pos = Len(r.data)
\* asserted for the programs tagged wire-unambiguous by hand; for programs built by SpecGen (gen) the same predicate is the
\* DEFINITION of wire-unambiguous within the bound and is reported with every behaviour (rt_ok) instead of asserted
PRoundTrip == (MODE = "rt" /\ phase = "de" /\ dstatus = "done" /\ ~Progs[p].gen) => RoundTripHere
\* C16 on the model: a violated object never yields a complete serialization (data left for a value that selects no case is the
\* documented exception, see F5)
PRefused == (phase = "ser2" /\ status = "done" /\ ~inv.stray) => exc \in {"SerializationError", "ValueError"}
PTerminates == <>(phase = "de" => dstatus \in {"done", "bound"})

SerRec == [kind |-> "ser", cid |-> cid, prog |-> Progs[p].name, san0 |-> san0, fuel |-> fuel0, exc |-> exc, bytes |-> w.bytes, san_end |-> w.san, modes |-> w.log, obj |-> result]
DeRec == [kind |-> "de", cid |-> cid, prog |-> Progs[p].name, data |-> r.data, ch0 |-> ch0, dfuel |-> dfuel0, status |-> dstatus, exc |-> dexc, pos |-> r.pos,
          ch_end |-> r.chunked, modes |-> r.log, obj |-> dresult, src |-> result, rt_ok |-> (MODE \in {"rt", "givenrt"} /\ RoundTripHere)]
\* C19 on the model: whatever the history, the instance and its serialization are what they were (action property)
PImmutable == [][(phase = "mut" /\ phase' = "mut") => (result' = result /\ w' = w)]_vars
MutRec == [kind |-> "mut", prog |-> Progs[p].name, obj |-> result, bytes |-> w.bytes, hist |-> inv.hist]
InvRec == [kind |-> "inv", prog |-> Progs[p].name, what |-> inv.what, stray |-> inv.stray, exc |-> exc, obj |-> result]
Emit == /\ (EMIT /\ phase = "ser" /\ status = "done" /\ (MODE \in {"ser", "given"} \/ exc # "")) => PrintT(ToJson(SerRec))
        /\ (EMIT /\ phase = "ser2" /\ status = "done") => PrintT(ToJson(InvRec))
        /\ (EMIT /\ phase = "mut" /\ Len(inv.hist) = HDEPTH) => PrintT(ToJson(MutRec))
        /\ (EMIT /\ phase = "de" /\ dstatus \in {"done", "bound"}) => PrintT(ToJson(DeRec))
=============================================================================
