---------------------------- MODULE MC_ProtocolEnum ----------------------------
EXTENDS Integers, Sequences, FiniteSets, TLC, Json
CONSTANTS DEPTH, EMIT
VARIABLES members, history, fresh
\* ordinals as limb pairs <<hi, lo>> (n = hi*65536 + lo)
L(n) == <<n \div 65536, n % 65536>>
ENUMS_ == [ Hand   |-> {[name |-> "A", ord |-> L(0)], [name |-> "B", ord |-> L(1)], [name |-> "C", ord |-> L(3)]},
            Plain  |-> {[name |-> "Zero", ord |-> L(0)], [name |-> "One", ord |-> L(1)], [name |-> "Five", ord |-> L(5)]},
            WithNone |-> {[name |-> "None_", ord |-> L(0)], [name |-> "Some", ord |-> L(1)]},
            Wide   |-> {[name |-> "Low", ord |-> L(1)], [name |-> "High", ord |-> L(252)], [name |-> "Top", ord |-> L(255)], [name |-> "Big", ord |-> L(64008)]},
            \* declared out of ordinal order, like PacketFamily (Init = 255 first): DECLORDER gives the position of each member
            Unsorted |-> {[name |-> "Init", ord |-> L(255)], [name |-> "First", ord |-> L(1)], [name |-> "Mid", ord |-> L(9)], [name |-> "Second", ord |-> L(2)]} ]
DECLORDER == [Unsorted |-> <<"Init", "First", "Mid", "Second">>]
INTS == {L(-1), L(0), L(1), L(2), L(3), L(5), L(9), L(252), L(253), L(255), L(64008), <<32768, 0>>, <<62517, 37969>>}
E == INSTANCE ProtocolEnum WITH ENUMS <- ENUMS_
ASSUME PrintT(ToJson([enums |-> ENUMS_, declorder |-> DECLORDER]))
vars == <<members, history, fresh>>
Init == E!Init
Next == Len(history) < DEPTH /\ \E e \in DOMAIN ENUMS_, n \in INTS : E!Construct(e, n)
Spec == Init /\ [][Next]_vars
MembersNeverChange == E!MembersNeverChange
SameMemberSameObject == E!SameMemberSameObject
ResultIsOfItsEnum == E!ResultIsOfItsEnum
UnrecognizedOnlyWhenUndeclared == E!UnrecognizedOnlyWhenUndeclared
Emit == (EMIT /\ Len(history) = DEPTH) => PrintT(ToJson([history |-> history]))
=============================================================================
