INIT Init
NEXT Next
CHECK_DEADLOCK FALSE
INVARIANT InvRoundTrip
INVARIANT InvWireSafe
INVARIANT InvPrefix
