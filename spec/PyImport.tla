---------------------------- MODULE PyImport ----------------------------
(* CPython's import mechanics, as far as the eolib package uses them (property C20, export half of   *)
(* C18): a namespace-binding state machine.                                                           *)
(*   MODS: module name |-> [parent ("" for the top package), leaf, stmts, hasall, all]                  *)
(*   statement: [k |-> "def", name, target |-> "", names |-> <<>>]  (class / function / assignment)      *)
(*              [k |-> "star", target]   [k |-> "from", target, names]   [k |-> "import", target]          *)
(*              [k |-> "all", names, target |-> "" | "nomodules"]   (assignment to __all__)                 *)
(*              (relative targets are resolved to absolute module names by the extractor)                 *)
(*   PRIVATE: the names that start with an underscore (TLA+ cannot look inside a string)                 *)
(* State: loaded (module |-> "init" | "ready"), ns (module |-> name |-> object), stack of executing      *)
(* module bodies [m, pc], status.  An object is <<"mod", name>> or <<"obj", home module, name>>.          *)
(* The crux: `from x import *` copies EVERY public name bound in x at that moment (or __all__),           *)
(* including sub-module attributes, and a finished sub-module is bound as an attribute of its parent.     *)
EXTENDS Integers, Sequences, FiniteSets, TLC, SequencesExt
CONSTANTS MODS, PRIVATE, FIRST        \* FIRST: the modules a fresh interpreter may import first
VARIABLES loaded, ns, stack, status, first
ivars == <<loaded, ns, stack, status, first>>

Known(m) == m \in DOMAIN MODS
ModObj(m) == <<"mod", m>>
Empty == [x \in {} |-> <<>>]
NsOf(m) == IF m \in DOMAIN ns THEN ns[m] ELSE Empty
Bind(nsp, m, nm, o) == [x \in DOMAIN nsp \cup {m} |-> IF x = m THEN (nm :> o) @@ (IF m \in DOMAIN nsp THEN nsp[m] ELSE Empty) ELSE nsp[x]]
\* ancestors of module m, outermost first, ending with m itself
RECURSIVE Chain(_)
Chain(m) == IF MODS[m].parent = "" THEN <<m>> ELSE Append(Chain(MODS[m].parent), m)
\* the first module of Chain(t) that has not been started yet, or "" if all are in sys.modules
FirstMissing(t) == LET c == Chain(t)
                       miss == {i \in 1..Len(c) : c[i] \notin DOMAIN loaded}
                   IN  IF miss = {} THEN "" ELSE c[CHOOSE i \in miss : \A j \in miss : i <= j]

Top == stack[Len(stack)]
Stmt == MODS[Top.m].stmts[Top.pc]
Advance == [stack EXCEPT ![Len(stack)] = [Top EXCEPT !.pc = Top.pc + 1]]
\* begin executing the body of module m (it enters sys.modules before its body runs)
StartLoad(m) == /\ loaded' = (m :> "init") @@ loaded
                /\ stack' = Append(stack, [m |-> m, pc |-> 1])
                /\ ns' = IF m \in DOMAIN ns THEN ns ELSE (m :> Empty) @@ ns
                /\ UNCHANGED <<status, first>>

Init == /\ first \in FIRST /\ loaded = [x \in {} |-> ""] /\ ns = [x \in {} |-> Empty] /\ stack = <<>> /\ status = "start"
\* the interpreter imports `first`, then (always) the top-level package
Request == /\ status \in {"start", "second"} /\ stack = <<>>
           /\ LET t == IF status = "start" THEN first ELSE "eolib"
                  fm == FirstMissing(t)
              IN  IF fm = "" THEN status' = (IF status = "start" THEN "second" ELSE "done") /\ UNCHANGED <<loaded, ns, stack, first>>
                  ELSE StartLoad(fm)
\* the body of a module is finished: it becomes an attribute of its parent package
Finish == /\ stack # <<>> /\ Top.pc > Len(MODS[Top.m].stmts)
          /\ loaded' = [loaded EXCEPT ![Top.m] = "ready"]
          /\ ns' = IF MODS[Top.m].parent = "" THEN ns ELSE Bind(ns, MODS[Top.m].parent, MODS[Top.m].leaf, ModObj(Top.m))
          /\ stack' = SubSeq(stack, 1, Len(stack) - 1)
          /\ UNCHANGED <<status, first>>
Def == /\ stack # <<>> /\ Top.pc <= Len(MODS[Top.m].stmts) /\ Stmt.k = "def"
       /\ ns' = Bind(ns, Top.m, Stmt.name, <<"obj", Top.m, Stmt.name>>)
       /\ stack' = Advance /\ UNCHANGED <<loaded, status, first>>
\* any import statement first makes sure the target (and its ancestors, outermost first) are in sys.modules
NeedLoad == /\ stack # <<>> /\ Top.pc <= Len(MODS[Top.m].stmts) /\ Stmt.k \in {"star", "from", "import"}
            /\ Known(Stmt.target) /\ FirstMissing(Stmt.target) # ""
            /\ StartLoad(FirstMissing(Stmt.target))
\* __all__ exists only once its assignment has executed; it is kept in the namespace as <<"all", name1, ...>>
StarNames(t) == IF "__all__" \in DOMAIN NsOf(t) THEN {NsOf(t)["__all__"][i] : i \in 2..Len(NsOf(t)["__all__"])}
                ELSE {nm \in DOMAIN NsOf(t) : nm \notin PRIVATE}
\* __all__ = [...] (a literal list), or the idiom "every public global that is not a module" evaluated at this point
SetAll == /\ stack # <<>> /\ Top.pc <= Len(MODS[Top.m].stmts) /\ Stmt.k = "all"
          /\ LET nms == IF Stmt.target = "nomodules"
                         THEN SetToSeq({nm \in DOMAIN ns[Top.m] : nm \notin PRIVATE /\ ns[Top.m][nm][1] # "mod"})
                         ELSE Stmt.names
             IN  ns' = Bind(ns, Top.m, "__all__", <<"all">> \o nms)
          /\ stack' = Advance /\ UNCHANGED <<loaded, status, first>>
Star == /\ stack # <<>> /\ Top.pc <= Len(MODS[Top.m].stmts) /\ Stmt.k = "star"
        /\ Known(Stmt.target) /\ FirstMissing(Stmt.target) = ""
        /\ LET t == Stmt.target
               nms == StarNames(t)
           IN  IF \E nm \in nms : nm \notin DOMAIN NsOf(t)
               THEN status' = "AttributeError" /\ stack' = <<>> /\ UNCHANGED <<loaded, ns, first>>        \* __all__ names something that is not there
               ELSE /\ ns' = [ns EXCEPT ![Top.m] = [nm \in nms \cup DOMAIN ns[Top.m] |-> IF nm \in nms THEN NsOf(t)[nm] ELSE ns[Top.m][nm]]]
                    /\ stack' = Advance /\ UNCHANGED <<loaded, status, first>>
\* from t import a, b: an attribute of t, else the sub-module t.a (imported on demand)
SubMod(t, nm) == t \o "." \o nm
From == /\ stack # <<>> /\ Top.pc <= Len(MODS[Top.m].stmts) /\ Stmt.k = "from"
        /\ Known(Stmt.target) /\ FirstMissing(Stmt.target) = ""
        /\ LET t == Stmt.target
               want == {Stmt.names[i] : i \in 1..Len(Stmt.names)}
               subs == {nm \in want : nm \notin DOMAIN NsOf(t) /\ Known(SubMod(t, nm)) /\ SubMod(t, nm) \notin DOMAIN loaded}
           IN  IF subs # {} THEN StartLoad(SubMod(t, CHOOSE nm \in subs : TRUE))
               ELSE IF \E nm \in want : nm \notin DOMAIN NsOf(t)
                    THEN status' = "ImportError" /\ stack' = <<>> /\ UNCHANGED <<loaded, ns, first>>
                    ELSE /\ ns' = [ns EXCEPT ![Top.m] = [nm \in want \cup DOMAIN ns[Top.m] |-> IF nm \in want THEN NsOf(t)[nm] ELSE ns[Top.m][nm]]]
                         /\ stack' = Advance /\ UNCHANGED <<loaded, status, first>>
\* import a.b.c binds the top-level name a
PlainImport == /\ stack # <<>> /\ Top.pc <= Len(MODS[Top.m].stmts) /\ Stmt.k = "import"
               /\ Known(Stmt.target) /\ FirstMissing(Stmt.target) = ""
               /\ ns' = Bind(ns, Top.m, MODS[Chain(Stmt.target)[1]].leaf, ModObj(Chain(Stmt.target)[1]))
               /\ stack' = Advance /\ UNCHANGED <<loaded, status, first>>
\* imports of modules outside the package (stdlib) bind nothing we track
Foreign == /\ stack # <<>> /\ Top.pc <= Len(MODS[Top.m].stmts) /\ Stmt.k \in {"star", "from", "import"} /\ ~Known(Stmt.target)
           /\ stack' = Advance /\ UNCHANGED <<loaded, ns, status, first>>
Next == Request \/ Finish \/ Def \/ SetAll \/ NeedLoad \/ Star \/ From \/ PlainImport \/ Foreign
Spec == Init /\ [][Next]_ivars

\* ---- the two C20 predicates, over any namespace map (the model's or an observed one) ----
RECURSIVE WalkPath(_, _, _)
\* follow attribute names from module object cur; "" when an attribute is missing
WalkPath(nsp, cur, names) ==
  IF names = <<>> THEN cur
  ELSE IF cur[1] # "mod" \/ cur[2] \notin DOMAIN nsp \/ Head(names) \notin DOMAIN nsp[cur[2]] THEN <<"missing">>
  ELSE WalkPath(nsp, nsp[cur[2]][Head(names)], Tail(names))
\* documented path p (module name) is reachable by attribute access from the top package and is that very module
Leaves(m) == LET c == Chain(m) IN [i \in 1..(Len(c) - 1) |-> MODS[c[i + 1]].leaf]
Resolves(nsp, m) == WalkPath(nsp, ModObj("eolib"), Leaves(m)) = ModObj(m)
\* name nm, defined in module def, is the same object at the top level and in its home subpackage home
Has(nsp, m, nm) == m \in DOMAIN nsp /\ nm \in DOMAIN nsp[m]
OneObject(nsp, e) == /\ Has(nsp, "eolib", e.name) /\ Has(nsp, e.home, e.name) /\ Has(nsp, e.def, e.name)
                     /\ nsp["eolib"][e.name] = nsp[e.def][e.name] /\ nsp[e.home][e.name] = nsp[e.def][e.name]
=============================================================================
