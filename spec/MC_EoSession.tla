---------------------------- MODULE MC_EoSession ----------------------------
EXTENDS EoSession, Json
MCInits == {<<0, 13>>, <<252, 5>>, <<17, 100>>}
MCPings == {<<3, 3>>, <<1900, 144>>, <<251, 251>>}
MCBodies == {<<6, 9, 10, 3>>, <<0, 128, 255, 7, 14>>}
\* bounded channels keep the exhaustive instance small; the simulation config lifts the bound
CONSTANT CHANCAP
Cap == Len(c2s) <= CHANCAP /\ Len(s2c) <= CHANCAP
MCMults == <<3, 7>>
MCAccts == {0, 7, 239}
\* finished behaviours (quiet channels after all budgets are used) are emitted for replay through the real primitives
VARIABLE log
LInit == Init /\ log = <<>>
Rec(name) == [a |-> name, cstart |-> cstart', ccounter |-> ccounter', sstart |-> sstart', scounter |-> scounter', spending |-> spending',
              c2s |-> c2s', s2c |-> s2c', ok |-> lastOk', cstate |-> cstate']
LNext == \/ ClientHello /\ log' = Append(log, Rec("ClientHello"))
         \/ ServerHello /\ log' = Append(log, Rec("ServerHello"))
         \/ ClientInitReply /\ log' = Append(log, Rec("ClientInitReply"))
         \/ ClientSend /\ log' = Append(log, Rec("ClientSend"))
         \/ ServerRecv /\ log' = Append(log, Rec("ServerRecv"))
         \/ ServerSend /\ log' = Append(log, Rec("ServerSend"))
         \/ ClientRecv /\ log' = Append(log, Rec("ClientRecv"))
         \/ ServerPing /\ log' = Append(log, Rec("ServerPing"))
         \/ ClientPing /\ log' = Append(log, Rec("ClientPing"))
         \/ ServerPong /\ log' = Append(log, Rec("ServerPong"))
         \/ ClientAcctRequest /\ log' = Append(log, Rec("ClientAcctRequest"))
         \/ ServerAcctRecv /\ log' = Append(log, Rec("ServerAcctRecv"))
         \/ ServerAcctReply /\ log' = Append(log, Rec("ServerAcctReply"))
         \/ ClientAcctReply /\ log' = Append(log, Rec("ClientAcctReply"))
LSpec == LInit /\ [][LNext]_<<vars, log>>
Quiet == c2s = <<>> /\ s2c = <<>> /\ cstate = "ready" /\ ~owed /\ sent = MAXSENT /\ pings = MAXPINGS /\ accts = MAXACCTS /\ ssent = MAXSSENT
\* the history variable is hidden from the fingerprint in the exhaustive run (VIEW) and used only in simulation
View == vars
Emit == Quiet => PrintT(ToJson([challenge |-> challenge, log |-> log]))
=============================================================================
