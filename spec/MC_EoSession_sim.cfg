CONSTANTS
  CHALLENGES = {0, 12345, 11092110}
  INITS <- MCInits
  PINGS <- MCPings
  MAXSENT = 25
  MAXPINGS = 4
  BODIES <- MCBodies
  MULTS <- MCMults
  ACCTS <- MCAccts
  MAXSSENT = 5
  MAXACCTS = 3
  POSTPONE = TRUE
  CHANCAP = 6
SPECIFICATION LSpec
CONSTRAINT Cap
CHECK_DEADLOCK FALSE
INVARIANT GenuineServerAccepted
INVARIANT Lockstep
INVARIANT HashFitsEoInt
INVARIANT ComponentsTransmittable
INVARIANT StartsAgreeWhenQuiet
INVARIANT Emit
