CONSTANTS
  DEPTH = 3
  EMIT = TRUE
SPECIFICATION Spec
CHECK_DEADLOCK FALSE
INVARIANT LastOK
INVARIANT ReadBackOK
INVARIANT ConsumedExactly
INVARIANT Emit
