CONSTANTS
  MODS <- IMods
  PRIVATE <- IPrivate
  FIRST <- IFirst
INIT BInit
NEXT BNext
CHECK_DEADLOCK FALSE
INVARIANT Report
