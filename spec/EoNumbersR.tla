---------------------------- MODULE EoNumbersR ----------------------------
(* The EO number codec over an arbitrary radix R (the real protocol has R = 253, filler byte  *)
(* R + 1 = 254, and byte value = digit + 1).  Plain integers; instantiated with R = 253 by     *)
(* EoNumbers and explored exhaustively over the whole range R^4 for small R by MC_EoNumbersR.   *)
EXTENDS Integers, Sequences
CONSTANT R

Filler == R + 1
Pow(i) == CASE i = 0 -> 1 [] i = 1 -> R [] i = 2 -> R * R [] i = 3 -> R * R * R
MinI(a, b) == IF a < b THEN a ELSE b

DigitInt(n, i) == (n \div Pow(i)) % R
\* byte i (0-based) of the 4-byte encoding of n, 0 <= n < R^4
EncByteInt(n, i) == IF i >= 1 /\ n < Pow(i) THEN Filler ELSE DigitInt(n, i) + 1
\* @type: (Int) => Seq(Int);
EncodeInt(n) == <<EncByteInt(n, 0), EncByteInt(n, 1), EncByteInt(n, 2), EncByteInt(n, 3)>>

\* number of leading bytes that take part in decoding: up to the first filler, at most four
\* (written without recursion so that Apalache can take the same definition)
\* @type: (Seq(Int)) => Int;
Significant(s) ==
  LET m == MinI(Len(s), 4)
  IN  CHOOSE k \in 0..4 : /\ k <= m
                          /\ \A j \in 1..4 : j <= k => s[j] # Filler
                          /\ (k = m \/ s[k + 1] = Filler)

\* @type: (Seq(Int), Int, Int) => Int;
Term(s, sig, k) == IF k <= sig THEN (s[k] - 1) * Pow(k - 1) ELSE 0
\* @type: (Seq(Int)) => Int;
DecodeInt(s) == LET sig == Significant(s)
                IN  Term(s, sig, 1) + Term(s, sig, 2) + Term(s, sig, 3) + Term(s, sig, 4)

\* ---- theorems (predicates of one number) ----
RoundTripInt(n) == DecodeInt(EncodeInt(n)) = n
WireSafeInt(n)  == \A i \in 1..4 : EncodeInt(n)[i] \in 1..Filler     \* never 0, never above the filler
PrefixInt(n)    == \A k \in 1..4 :
                      (k = 4 \/ n < Pow(k)) =>
                         /\ DecodeInt(SubSeq(EncodeInt(n), 1, k)) = n
                         /\ \A j \in 1..4 : j > k => EncodeInt(n)[j] = Filler
=============================================================================
