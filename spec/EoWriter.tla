---------------------------- MODULE EoWriter ----------------------------
(* EoWriter (properties C09, C04, C06): functional core (operators on a writer record          *)
(* [bytes, san]) used by the protocol machines, and the state machine proper - one action per   *)
(* public call, with the outcome ("" or "ValueError") as part of the state.                     *)
(* EO numbers are limb pairs (EoNumbers).                                                       *)
EXTENDS EoNumbers, EoStrings, Cp1252

NewWriter == [bytes |-> <<>>, san |-> FALSE]
Ok(w)  == [w |-> w, exc |-> ""]
Err(w) == [w |-> w, exc |-> "ValueError"]       \* refused: contents unchanged
Put(w, bs) == [w EXCEPT !.bytes = w.bytes \o bs]

Sanitize(w, bs) == IF w.san THEN [i \in 1..Len(bs) |-> IF bs[i] = 255 THEN 121 ELSE bs[i]] ELSE bs   \* y-diaeresis -> 'y'
Pad(bs, len) == bs \o Repeat(255, len - Len(bs))
\* the fixed/padded length rule
LengthOk(s, len, padded) == IF padded THEN Len(s) <= len ELSE Len(s) = len

WAddByte(w, n)  == IF LLess(<<0, 255>>, n) THEN Err(w) ELSE Ok(Put(w, <<LToInt(n)>>))
WAddBytes(w, bs) == Ok(Put(w, bs))
\* t in {"char","short","three","int"}: refused at or above the type's limit
WAddNum(w, t, n) == IF ~LLess(n, Limit(t)) THEN Err(w) ELSE Ok(Put(w, SubSeq(Encode(n), 1, Width(t))))
WAddString(w, s) == Ok(Put(w, Sanitize(w, StrToBytes(s))))
WAddFixedString(w, s, len, padded) ==
  IF ~LengthOk(s, len, padded) THEN Err(w)
  ELSE LET b == Sanitize(w, StrToBytes(s)) IN Ok(Put(w, IF padded THEN Pad(b, len) ELSE b))
WAddEncodedString(w, s) == Ok(Put(w, EncodeString(Sanitize(w, StrToBytes(s)))))
WAddFixedEncodedString(w, s, len, padded) ==
  IF ~LengthOk(s, len, padded) THEN Err(w)
  ELSE LET b == Sanitize(w, StrToBytes(s)) IN Ok(Put(w, EncodeString(IF padded THEN Pad(b, len) ELSE b)))
WSetSan(w, b) == Ok([w EXCEPT !.san = b])

NumType(op) == CASE op = "add_char" -> "char" [] op = "add_short" -> "short" [] op = "add_three" -> "three" [] op = "add_int" -> "int"
\* one call described by a record; used by the state machine, the trace spec and the protocol machines
WApply(w, c) ==
  CASE c.op = "add_byte"   -> WAddByte(w, c.n)
    [] c.op = "add_bytes"  -> WAddBytes(w, c.bytes)
    [] c.op \in {"add_char", "add_short", "add_three", "add_int"} -> WAddNum(w, NumType(c.op), c.n)
    [] c.op = "add_string" -> WAddString(w, c.s)
    [] c.op = "add_fixed_string" -> WAddFixedString(w, c.s, c.len, c.padded)
    [] c.op = "add_encoded_string" -> WAddEncodedString(w, c.s)
    [] c.op = "add_fixed_encoded_string" -> WAddFixedEncodedString(w, c.s, c.len, c.padded)
    [] c.op = "set_san"    -> WSetSan(w, c.b)

\* ---- the state machine ----
VARIABLES wbytes, san, outcome
wvars == <<wbytes, san, outcome>>
W == [bytes |-> wbytes, san |-> san]
WInit == wbytes = <<>> /\ san = FALSE /\ outcome = ""
Call(c) == LET r == WApply(W, c) IN wbytes' = r.w.bytes /\ san' = r.w.san /\ outcome' = r.exc

\* ---- C09 as action properties of Call(c) (c is the call just made) ----
IsStringOp(c) == c.op \in {"add_string", "add_fixed_string", "add_encoded_string", "add_fixed_encoded_string"}
Declared(c) == CASE c.op = "add_byte" -> 1 [] c.op = "add_bytes" -> Len(c.bytes)
                 [] c.op = "add_char" -> 1 [] c.op = "add_short" -> 2 [] c.op = "add_three" -> 3 [] c.op = "add_int" -> 4
                 [] c.op \in {"add_string", "add_encoded_string"} -> Len(c.s)
                 [] c.op \in {"add_fixed_string", "add_fixed_encoded_string"} -> c.len
                 [] c.op = "set_san" -> 0
Appended(before, after) == SubSeq(after, Len(before) + 1, Len(after))
IsEncOp(c) == c.op \in {"add_encoded_string", "add_fixed_encoded_string"}
PadCount(c) == IF c.op \in {"add_fixed_string", "add_fixed_encoded_string"} /\ c.padded THEN c.len - Len(c.s) ELSE 0
\* the bytes a string write must emit: image of the string (y-diaeresis -> 'y' when sanitising), 0xFF padding, then the
\* string encoding for the encoded calls
StringBytes(c, sanNow) ==
  LET img == [i \in 1..Len(c.s) |-> IF sanNow /\ ToByte(c.s[i]) = 255 THEN 121 ELSE ToByte(c.s[i])]
      p == img \o Repeat(255, PadCount(c))
  IN  IF IsEncOp(c) THEN EncodeString(p) ELSE p
Atomic(c, before, after, exc) == exc = "ValueError" => after = before
ExactLength(c, before, after, exc) == exc = "" => (IsPrefixOf(before, after) /\ Len(after) = Len(before) + Declared(c))
\* with sanitisation on: 0xFF only as padding, every y-diaeresis became 'y'
SanitisedNoFF(c, sanNow, before, after, exc) ==
  (exc = "" /\ IsStringOp(c) /\ sanNow) =>
     /\ Appended(before, after) = StringBytes(c, TRUE)
     /\ Count(Appended(before, after), 255) = PadCount(c)
\* with it off: the exact windows-1252 image (plus padding)
ExactImage(c, sanNow, before, after, exc) ==
  (exc = "" /\ IsStringOp(c) /\ ~sanNow) => Appended(before, after) = StringBytes(c, FALSE)
=============================================================================
