---------------------------- MODULE Apa_Sequencer ----------------------------
(* Unbounded histories for C13 (Apalache): for ANY number of requests and ANY update values,        *)
(* IndInv - the counter is the number of requests served modulo 10, and every number handed out so   *)
(* far was start-in-force + (requests before it) mod 10 - is an inductive invariant.                  *)
(* Same actions as Sequencer.tla (the start is represented by its value; its kind never matters).     *)
EXTENDS Integers
VARIABLES
  \* @type: Int;
  startv,
  \* @type: Int;
  counter,
  \* @type: Int;
  served,
  \* @type: Int;
  last,
  \* @type: Bool;
  lockstep      \* ghost: every request so far returned start + (served before it) % 10

Init == startv \in Int /\ counter = 0 /\ served = 0 /\ last = -1 /\ lockstep = TRUE
NextSequence == /\ last' = startv + counter /\ counter' = (counter + 1) % 10 /\ served' = served + 1
                /\ lockstep' = (lockstep /\ last' = startv + (served % 10)) /\ UNCHANGED startv
SetStart == \E v \in Int : startv' = v /\ UNCHANGED <<counter, served, last, lockstep>>
Next == NextSequence \/ SetStart

IndInv == served >= 0 /\ counter >= 0 /\ counter <= 9 /\ counter = served % 10 /\ lockstep
\* an arbitrary state satisfying IndInv (base of the inductive step: --init=IndInit --inv=IndInv --length=1)
IndInit == startv \in Int /\ counter \in Int /\ served \in Int /\ last \in Int /\ lockstep \in BOOLEAN /\ IndInv
\* a deliberately non-inductive strengthening, used to show the prover would object
NotInductive == IndInv /\ counter # 7
=============================================================================
