---------------------------- MODULE MC_SpecGen ----------------------------
EXTENDS SpecGen, IOUtils
LibTypes == JsonDeserialize(IOEnv.TYPES_FILE)
=============================================================================
