CONSTANTS
  MAXDATA = 4
  DEPTH = 2
  EMIT = TRUE
  FULL = FALSE
SPECIFICATION Spec
CHECK_DEADLOCK FALSE
INVARIANT SafeInBounds
INVARIANT Emit
PROPERTY StepIndependent
PROPERTY StepDataImmutable
PROPERTY SliceFresh
