---------------------------- MODULE ProtoInvalid ----------------------------
(* Declaration-violating objects (property C16): Mutations(code, cls, obj) lists the objects        *)
(* obtained from the valid object obj by ONE violating change at any field at any nesting depth:    *)
(*   - a required field / struct / array left as None                                               *)
(*   - a string longer (or, if not padded, shorter) than its fixed length; an array with one         *)
(*     element more or less than its fixed length; more elements than the length field can carry     *)
(*   - an integer (also an enum value, also an array element) at its type's limit, one above, and 253^4+5  *)
(*   - switch case data of the wrong kind for the switch value (the switch field moved to another    *)
(*     case while the data stays; None where the selected case has a body)                           *)
(* Each entry is [obj, what, stray]; stray marks data left behind for a value that selects no case   *)
(* at all (the grammar documents are silent there; see DESIGN.md F5).  Sequences, not sets: TLC       *)
(* cannot compare objects whose fields hold different kinds of values.                               *)
EXTENDS ProtoAst, SequencesExt
Put(o, name, v) == (name :> v) @@ o
Mut(o, what) == [obj |-> o, what |-> what, stray |-> FALSE]
OrdOf(t, name) == (CHOOSE m \in {TYPES[t].values[x] : x \in 1..Len(TYPES[t].values)} : m.name = name).ord
CaseValue(c, t) == IF c.val.k = "num" THEN c.val.n ELSE OrdOf(t, c.val.name)
Selects(cases, t, v) ==
  LET hit == {x \in 1..Len(cases) : ~cases[x].default /\ CaseValue(cases[x], t) = v}
      dfl == {x \in 1..Len(cases) : cases[x].default}
  IN  IF hit # {} THEN CHOOSE x \in hit : \A y \in hit : x <= y ELSE IF dfl # {} THEN CHOOSE x \in dfl : TRUE ELSE 0
If(c, s) == IF c THEN s ELSE <<>>
\* lift the mutations ms of a nested object into the parent: Wrap(m) rebuilds the parent around m.obj
Lift(ms, prefix, Wrap(_)) == [k \in 1..Len(ms) |-> [obj |-> Wrap(ms[k].obj), what |-> prefix \o ms[k].what, stray |-> ms[k].stray]]

RECURSIVE Mutations(_, _, _)
NumMuts(o, name, wire) ==
  <<Mut(Put(o, name, Limit(wire)), name \o " at the limit of " \o wire),
    Mut(Put(o, name, LAdd(Limit(wire), <<0, 1>>)), name \o " above the limit of " \o wire),
    \* far above: 253^4 + 5, whose encoding begins like that of a small number (the excess sits in bytes the narrower field would cut off)
    Mut(Put(o, name, LAdd(INT_MAX_L, <<0, 5>>)), name \o " far above the limit of " \o wire)>>
FieldMuts(i, cls, o) ==
  LET v == o[i.name]
      W(x) == Put(o, i.name, x)
  IN  If(~i.optional, <<Mut(Put(o, i.name, NoneV), "required " \o i.name \o " is None")>>)
      \o (IF IsNone(v) THEN <<>>
          ELSE IF IsStr(i.type) /\ i.len.k = "lit"
               THEN <<Mut(Put(o, i.name, [k \in 1..(i.len.n + 1) |-> 97]), i.name \o " longer than its fixed length")>>
                    \o If(~i.padded /\ Len(v) > 0, <<Mut(Put(o, i.name, Tail(v)), i.name \o " shorter than its fixed length")>>)
               ELSE IF IsInt(i.type) \/ IsEnum(i.type) THEN NumMuts(o, i.name, WireInt(i.type, i.over))
               ELSE IF IsStruct(i.type) THEN Lift(Mutations(TYPES[i.type].code, i.type, v), i.name \o ".", W)
               ELSE <<>>)
ArrayMuts(i, cls, o) ==
  LET v == o[i.name]
      W(x) == Put(o, i.name, [v EXCEPT ![1] = x])
  IN  If(~i.optional, <<Mut(Put(o, i.name, NoneV), "required array " \o i.name \o " is None")>>)
      \o (IF IsNone(v) THEN <<>> ELSE IF Len(v) = 0 THEN <<>>
          ELSE If(i.len.k = "lit", <<Mut(Put(o, i.name, Append(v, v[1])), i.name \o " has one element too many"),
                                     Mut(Put(o, i.name, Tail(v)), i.name \o " has one element too few")>>)
               \o (IF IsInt(i.type) \/ IsEnum(i.type)
                   THEN <<Mut(Put(o, i.name, [v EXCEPT ![1] = Limit(WireInt(i.type, i.over))]), i.name \o "[0] at the limit")>>
                   ELSE IF IsStruct(i.type) THEN Lift(Mutations(TYPES[i.type].code, i.type, v[1]), i.name \o "[0].", W)
                   ELSE <<>>))
\* more elements / characters than the length field (byte or char) can carry
LengthMuts(li, code, o) ==
  LET refs == {x \in 1..Len(code) : code[x].tag \in {"field", "array"} /\ code[x].len.k = "ref" /\ code[x].len.ref = li.name}
  IN  IF refs = {} \/ li.type \notin {"byte", "char"} THEN <<>>
      ELSE LET ri == code[CHOOSE x \in refs : TRUE]
               v == o[ri.name]
               n == LToInt(MaxOf(li.type)) + li.offset + 1
           IN  IF IsNone(v) THEN <<>> ELSE IF n < 1 \/ n > 300 THEN <<>>
               ELSE IF ri.tag = "field" THEN <<Mut(Put(o, ri.name, [k \in 1..n |-> 97]), ri.name \o " longer than its length field can carry")>>
               ELSE IF Len(v) = 0 THEN <<>>
               ELSE <<Mut(Put(o, ri.name, [k \in 1..n |-> v[1]]), ri.name \o " has more elements than its length field can carry")>>
SwitchMuts(i, cls, o) ==
  LET dname == i.field \o "_data"
      d == o[dname]
      sv == o[i.field]
      sel == IF IsNone(sv) THEN 0 ELSE Selects(i.cases, i.ftype, sv)
  IN  IF sel = 0 THEN <<>> ELSE IF IsNone(d) THEN <<>>
      ELSE LET c == i.cases[sel]
               others == SetToSeq({y \in 1..Len(i.cases) : y # sel /\ ~i.cases[y].default
                                                            /\ Selects(i.cases, i.ftype, CaseValue(i.cases[y], i.ftype)) = y})
               W(x) == Put(o, dname, x)
           IN  <<Mut(Put(o, dname, NoneV), dname \o " is None although case " \o c.cname \o " has a body")>>
               \o [k \in 1..Len(others) |->
                     [obj |-> Put(o, i.field, CaseValue(i.cases[others[k]], i.ftype)),
                      what |-> i.field \o " moved to case " \o i.cases[others[k]].cname \o " while " \o dname \o " stays " \o c.cname, stray |-> FALSE]]
               \* a value that no listed case matches falls to the default case: its data (if any) is of another kind, or must be None
               \o If((\E y \in 1..Len(i.cases) : i.cases[y].default) /\ Selects(i.cases, i.ftype, <<0, 200>>) # sel /\ ~i.cases[sel].default,
                     <<[obj |-> Put(o, i.field, <<0, 200>>), what |-> i.field \o " = 200 falls to the default case while " \o dname \o " stays " \o c.cname, stray |-> FALSE]>>)
               \o If(~\E y \in 1..Len(i.cases) : i.cases[y].default,
                     <<[obj |-> Put(o, i.field, <<0, 200>>), what |-> i.field \o " = 200 selects no case while " \o dname \o " stays", stray |-> TRUE]>>)
               \o Lift(Mutations(c.body, CaseClass(cls, i, c), d), dname \o ".", W)
InstrMuts(code, k, cls, o) ==
  LET i == code[k] IN
  CASE i.tag = "field" /\ i.name # "" /\ IsNone(i.hard) /\ i.name \in DOMAIN o -> FieldMuts(i, cls, o)
    [] i.tag = "array" /\ i.name \in DOMAIN o -> ArrayMuts(i, cls, o)
    [] i.tag = "length" -> LengthMuts(i, code, o)
    [] i.tag = "chunked" -> Mutations(i.body, cls, o)
    [] i.tag = "switch" /\ (i.field \o "_data") \in DOMAIN o -> SwitchMuts(i, cls, o)
    [] OTHER -> <<>>
Mutations(code, cls, o) ==
  LET RECURSIVE Cat(_)
      Cat(k) == IF k > Len(code) THEN <<>> ELSE InstrMuts(code, k, cls, o) \o Cat(k + 1)
  IN  Cat(1)
=============================================================================
