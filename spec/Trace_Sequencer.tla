---------------------------- MODULE Trace_Sequencer ----------------------------
(* Pattern V for C13: histories recorded from the real PacketSequencer, validated against     *)
(* Sequencer's own actions.  One TLC run checks all traces of the file (tid); verdicts are     *)
(* total: every trace prints exactly one line - accepted, or rejected at event l+1 together    *)
(* with the model state there.                                                                 *)
EXTENDS Integers, Sequences, TLC, Json, IOUtils
VARIABLES start, counter, served, last, tid, l
S == INSTANCE Sequencer
Traces == JsonDeserialize(IOEnv.TRACE_FILE)
Tr == Traces[tid].events
Ev == Tr[l + 1]

Init == tid \in 1..Len(Traces) /\ l = 0 /\ S!Init(Traces[tid].init)
Next == /\ l < Len(Tr) /\ l' = l + 1 /\ UNCHANGED tid
        /\ \/ Ev.op = "next" /\ S!NextSequence /\ last' = Ev.ret         \* spec action + logged result
           \/ Ev.op = "set" /\ S!SetStart([kind |-> Ev.kind, value |-> Ev.value])
           \/ Ev.op = "next_fail" /\ S!FailedRequest                       \* the call raised: allowed only while the start is unreadable
           \/ Ev.op = "resolve" /\ S!Resolve(Ev.value)

Verdict == /\ (l = Len(Tr)) => PrintT(ToJson([tid |-> tid, ok |-> TRUE, at |-> l]))
           /\ (l < Len(Tr) /\ ~ENABLED Next) =>
                 PrintT(ToJson([tid |-> tid, ok |-> FALSE, at |-> l + 1,
                                model |-> [start |-> start.value, counter |-> counter, served |-> served]]))
=============================================================================
