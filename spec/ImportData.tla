---------------------------- MODULE ImportData ----------------------------
(* Placeholder overwritten by the harness with the package layout extracted from the real files.      *)
IMods == [eolib |-> [parent |-> "", leaf |-> "eolib", stmts |-> <<[k |-> "star", target |-> "eolib.a", names |-> <<>>, name |-> ""]>>, hasall |-> FALSE, all |-> <<>>],
          eolib_a |-> [parent |-> "eolib", leaf |-> "a", stmts |-> <<[k |-> "def", target |-> "", names |-> <<>>, name |-> "X"]>>, hasall |-> FALSE, all |-> <<>>]]
IPrivate == {"_x"}
IFirst == {"eolib"}
IDocPaths == {"eolib"}
IExports == <<>>
=============================================================================
