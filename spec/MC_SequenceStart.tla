---------------------------- MODULE MC_SequenceStart ----------------------------
(* Model-level: the most general generator allowed by SequenceStart (any value, any components *)
(* satisfying ResultOK).  TLC checks that every value of every kind HAS a valid result (so that *)
(* "generation never fails" is satisfiable) and that every valid result reconstructs.          *)
EXTENDS SequenceStart, TLC
CONSTANT PINGSTEP      \* explore every PINGSTEP-th ping value in the state graph (1 = all); the ASSUME below always covers all
\* candidate components: the ones that can possibly reconstruct v (everything else fails ResultOK anyway)
Cands(k, v) == CASE k = "init"    -> {<<s1, v + 13 - 7 * s1>> : s1 \in 0..260}
                 [] k = "ping"    -> {<<v + s2, s2>> : s2 \in 0..260}
                 [] k = "account" -> {<<0, 0>>}
MCNext == \/ phase = "drawing" /\ \E v \in {x \in 0..1760 : kind # "ping" \/ x % PINGSTEP = 0} : \E c \in Cands(kind, v) : Result(v, c[1], c[2])
          \/ FromValues(Reconstruct(kind, value, seq1, seq2))
Spec == Init /\ [][MCNext]_vars
\* every value is producible: checked as "no sent-state is missing" via a witness count in the harness,
\* and directly:
EveryValueProducible ==
  \A k \in KINDS : \A v \in 0..MaxValue(k) : \E c \in Cands(k, v) : ResultOK(k, v, c[1], c[2])
ASSUME EveryValueProducible
SentIsReconstructible == phase = "sent" => ENABLED FromValues(value)
InRange == phase # "drawing" => value \in 0..MaxValue(kind)
=============================================================================
