---------------------------- MODULE MC_EoFrame ----------------------------
(* Bounded instance of EoFrame: every packet of PACKETS framed under every multiple of MULTIPLES      *)
(* (theorems of one frame), and the reassembly machine over every ordered pair/triple of packets        *)
(* with every fragmentation of the stream into pieces of at most MAXFRAG bytes.                          *)
EXTENDS EoFrame, Json
CONSTANTS MAXFRAG, NPKT
\* <<action, family, seq, body>>; sequence numbers on both sides of CHAR_MAX, a body made of multiples, the raw init packet
PACKETS == {<<4, 21, 0, <<>>>>, <<4, 21, 252, <<6, 9>>>>, <<6, 3, 253, <<12, 3, 9, 0, 255>>>>, <<1, 5, 1765, <<128, 0, 254>>>>,
            <<255, 255, -1, <<2, 7, 7>>>>, <<10, 18, -1, <<7, 14, 21, 5, 28, 35>>>>}
MULTIPLES == {0, 3, 7}
VARIABLES sent, mult, stream, buf, out, frags
fvars == <<sent, mult, stream, buf, out, frags>>
FrameOf(p, m) == Frame(p[1], p[2], p[3], p[4], m)
PayloadOf(p, m) == Payload(p[1], p[2], p[3], p[4], m)
Tuples == UNION {[1..n -> PACKETS] : n \in 1..NPKT}
Init == /\ sent \in Tuples /\ mult \in MULTIPLES
        /\ stream = Concat([i \in 1..Len(sent) |-> FrameOf(sent[i], mult)])
        /\ buf = <<>> /\ out = <<>> /\ frags = <<>>
Arrive == /\ stream # <<>> /\ ~CanDeliver(buf)                    \* a receiver drains what it can before it reads again
          /\ \E k \in 1..MAXFRAG : /\ k <= Len(stream)
                                   /\ buf' = buf \o Take(stream, k) /\ stream' = Drop(stream, k) /\ frags' = Append(frags, k)
          /\ UNCHANGED <<sent, mult, out>>
Deliver == /\ CanDeliver(buf)
           /\ out' = Append(out, FirstPayload(buf)) /\ buf' = Rest(buf)
           /\ UNCHANGED <<sent, mult, stream, frags>>
View == <<sent, mult, stream, buf, out>>      \* the fragment history is only for emitting behaviours
Next == Arrive \/ Deliver
Spec == Init /\ [][Next]_fvars

\* ---- properties ----
OneFrame == \A p \in PACKETS : \A m \in MULTIPLES : FrameRoundTrip(p[1], p[2], p[3], p[4], m) /\ LengthWireSafe(p[1], p[2], p[3], p[4], m)
\* what has been delivered is always the sent payloads, in order, nothing invented
DeliveredPrefix == /\ Len(out) <= Len(sent) /\ \A i \in 1..Len(out) : out[i] = PayloadOf(sent[i], mult)
\* nothing is lost: when the stream is drained and nothing is deliverable, everything was delivered and the buffer is empty
Done == stream = <<>> /\ ~CanDeliver(buf)
AllDelivered == Done => (Len(out) = Len(sent) /\ buf = <<>>)
\* and each delivered payload decodes to the packet that was sent
Decoded == \A i \in 1..Len(out) : LET f == Take(N!EncodeInt(Len(out[i])), 2) \o out[i]
                                       u == Unframe(f, sent[i][3], mult)
                                   IN  u.action = sent[i][1] /\ u.family = sent[i][2] /\ u.seq = sent[i][3] /\ u.body = sent[i][4]
\* finished behaviours are emitted for replay on a receiver written with the real primitives
Emit == Done => PrintT(ToJson([sent |-> sent, mult |-> mult, frags |-> frags, out |-> out,
                               frames |-> [i \in 1..Len(sent) |-> FrameOf(sent[i], mult)]]))
=============================================================================
