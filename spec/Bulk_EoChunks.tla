---------------------------- MODULE Bulk_EoChunks ----------------------------
(* C06 binding: the predicates of EoChunks evaluated on what the real EoWriter / EoReader did.     *)
(* row = [chunks, plans, fieldbytes, results, alone]                                               *)
(*   fieldbytes[c][j]  bytes the real writer (sanitisation on) appended for field j of chunk c      *)
(*   results[c]        values returned by the reads of plan c on the chunked reader over everything  *)
(*   alone[c]          values returned by the same plan when chunk c is written and read on its own  *)
(* Verdict entries <<row, chunk, code>>: 1 a field encoding contains the break byte, 2 a planned     *)
(* read returned a wrong value, 3 a surplus read did not return zero/empty, 4 results depend on      *)
(* other chunks (differ from the chunk read alone).                                                  *)
EXTENDS EoChunks, TLC
RowBad(k, row) ==
  UNION {
    (IF c <= Len(row.chunks) /\ \E j \in 1..Len(row.fieldbytes[c]) : Has(row.fieldbytes[c][j], 255) THEN {<<k, c, 1>>} ELSE {})
    \cup (IF PrefixCorrect(ChunkAt(row.chunks, c), row.plans[c], row.results[c]) THEN {} ELSE {<<k, c, 2>>})
    \cup (IF SurplusZero(ChunkAt(row.chunks, c), row.plans[c], row.results[c]) THEN {} ELSE {<<k, c, 3>>})
    \cup (IF row.results[c] = row.alone[c] THEN {} ELSE {<<k, c, 4>>})
    : c \in 1..Len(row.plans)}      \* plans may outnumber chunks by one (a chunk that was never written)
Bad(blk) == UNION {RowBad(k, blk.rows[k]) : k \in 1..Len(blk.rows)}
VARIABLES g, k
D == INSTANCE BulkDriver WITH BadRows <- Bad
Init == D!BInit
Next == D!BNext
Report == D!Report
=============================================================================
