---------------------------- MODULE MC_EoNumbersR ----------------------------
(* Whole-range exploration of the codec for small radices: a definition that is right only  *)
(* for particular digits or thresholds fails here for some R.                                *)
EXTENDS Integers, Sequences, TLC
VARIABLES r, n
vars == <<r, n>>
C(rr) == INSTANCE EoNumbersR WITH R <- rr
Init == r \in 2..6 /\ n = 0
Next == n < r * r * r * r - 1 /\ n' = n + 1 /\ UNCHANGED r
InvRoundTrip == C(r)!RoundTripInt(n)
InvWireSafe  == C(r)!WireSafeInt(n)
InvPrefix    == C(r)!PrefixInt(n)
=============================================================================
