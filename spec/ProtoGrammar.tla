---------------------------- MODULE ProtoGrammar ----------------------------
(* The rules of the eo-protocol XML grammar (property C17) as a walk over a program with exactly the *)
(* context the rules talk about.  Violations(code) is the set of rule identifiers the program        *)
(* breaks; WellFormed(code) == Violations(code) = {}.                                                *)
(*                                                                                                   *)
(* Context: chunked (inside a <chunked>), opt (an optional field was reached in this segment),        *)
(* dummy (a <dummy> was reached), names (field name -> [type, array] visible here), lens (length       *)
(* field name -> already referenced?).  A <case> body starts with a fresh name scope and inherits     *)
(* the flags; a <break> resets opt and dummy; after a <switch> the flags are the union over its cases. *)
(*                                                                                                   *)
(* Rules (C17's catalogue):  R2 unknown type   R3 redefined field   R4 bad length reference           *)
(* R5 doubly referenced length   R6 delimited array outside chunked   R7 break outside chunked        *)
(* R8 required after optional   R9 anything after dummy   R10 unnamed field without value             *)
(* R11 hardcoded value of wrong type or length   R12 length on non-string type                        *)
(* R15 switch on unsuitable field   R16 lone default case.                                            *)
(* (R1 R13 R14 R17 are rules about type/packet declarations, i.e. about the tree, not about code.)     *)
(* hardkind is the builder's label of a hardcoded text: "" none, "ok", "nonnumeric", "badbool",        *)
(* "wronglen" - TLA+ cannot look inside the text.                                                     *)
EXTENDS ProtoAst, FiniteSets

Ctx0 == [chunked |-> FALSE, opt |-> FALSE, dummy |-> FALSE, names |-> [x \in {} |-> 0], lens |-> [x \in {} |-> FALSE]]
KnownType(t) == IsInt(t) \/ IsStr(t) \/ t \in {"bool", "blob"} \/ t \in DOMAIN TYPES
BasicType(t) == IsInt(t) \/ IsStr(t) \/ t = "bool"
HasHard(i) == i.hardkind # ""
V(rule, cond) == IF cond THEN {rule} ELSE {}

\* rules common to <field>, <array> and <length>: naming, optional ordering, length references
NameRules(i, c) ==
  V("R3", i.name # "" /\ i.name \in DOMAIN c.names)
  \cup V("R8", c.opt /\ ~i.optional)
LenRefRules(i, c) ==
  IF i.len.k # "ref" THEN {}
  ELSE IF i.len.ref \notin DOMAIN c.lens THEN {"R4"}
  ELSE V("R5", c.lens[i.len.ref])
HardRules(i) ==
  IF ~HasHard(i) THEN {}
  ELSE V("R11", i.hardkind # "ok" \/ ~BasicType(i.type) \/ i.tag = "array")
AfterField(i, c) ==
  LET c1 == IF i.name = "" THEN c ELSE [c EXCEPT !.names = (i.name :> [type |-> i.type, array |-> i.tag = "array"]) @@ c.names]
      c2 == IF i.len.k = "ref" /\ i.len.ref \in DOMAIN c.lens THEN [c1 EXCEPT !.lens = (i.len.ref :> TRUE) @@ c1.lens] ELSE c1
      c3 == IF i.tag = "length" THEN [c2 EXCEPT !.lens = (i.name :> FALSE) @@ c2.lens] ELSE c2
  IN  IF i.optional THEN [c3 EXCEPT !.opt = TRUE] ELSE c3

RECURSIVE Walk(_, _)
\* one instruction: [c |-> context after it, v |-> rules broken at it]
Instr(i, c) ==
  LET after9 == V("R9", c.dummy) IN
  CASE i.tag = "field" ->
         [c |-> AfterField(i, c),
          v |-> after9 \cup NameRules(i, c) \cup LenRefRules(i, c) \cup HardRules(i)
                \cup V("R2", ~KnownType(i.type)) \cup V("R10", i.name = "" /\ ~HasHard(i))
                \cup V("R12", i.len.k # "none" /\ KnownType(i.type) /\ ~IsStr(i.type))]
    [] i.tag = "array" ->
         [c |-> AfterField(i, c),
          v |-> after9 \cup NameRules(i, c) \cup LenRefRules(i, c) \cup HardRules(i)
                \cup V("R2", ~KnownType(i.type)) \cup V("R6", i.delimited /\ ~c.chunked)]
    [] i.tag = "length" ->
         [c |-> AfterField(i, c), v |-> after9 \cup NameRules(i, c) \cup V("R2", ~KnownType(i.type))]
    [] i.tag = "dummy" ->
         [c |-> [c EXCEPT !.dummy = TRUE], v |-> after9 \cup V("R2", ~KnownType(i.type))]
    [] i.tag = "break" ->
         [c |-> [c EXCEPT !.opt = FALSE, !.dummy = FALSE], v |-> after9 \cup V("R7", ~c.chunked)]
    [] i.tag = "chunked" ->
         LET w == Walk(i.body, [c EXCEPT !.chunked = TRUE])
         IN  [c |-> [w.c EXCEPT !.chunked = c.chunked], v |-> after9 \cup w.v]
    [] i.tag = "switch" ->
         LET bad15 == \/ i.field \notin DOMAIN c.names
                      \/ (i.field \in DOMAIN c.names /\ (c.names[i.field].array \/ ~(IsInt(c.names[i.field].type) \/ IsEnum(c.names[i.field].type))))
             bad16 == i.cases # <<>> /\ i.cases[1].default
             ws == [k \in 1..Len(i.cases) |-> Walk(i.cases[k].body, [c EXCEPT !.names = [x \in {} |-> 0], !.lens = [x \in {} |-> FALSE]])]
             c1 == [c EXCEPT !.opt = c.opt \/ (\E k \in 1..Len(ws) : ws[k].c.opt), !.dummy = c.dummy \/ (\E k \in 1..Len(ws) : ws[k].c.dummy)]
         IN  [c |-> [c1 EXCEPT !.names = ((i.field \o "_data") :> [type |-> "", array |-> FALSE]) @@ c1.names],
              v |-> after9 \cup V("R15", bad15) \cup V("R16", bad16) \cup UNION {ws[k].v : k \in 1..Len(ws)}]
Walk(code, c) ==
  IF code = <<>> THEN [c |-> c, v |-> {}]
  ELSE LET a == Instr(Head(code), c)
           b == Walk(Tail(code), a.c)
       IN  [c |-> b.c, v |-> a.v \cup b.v]

Violations(code) == Walk(code, Ctx0).v
WellFormed(code) == Violations(code) = {}

\* ---- what the grammar documents do not settle (never asserted; DESIGN.md section 5) ----
\* a <length> nobody references, an empty <switch>, a <dummy> inside a case body next to other instructions,
\* two switches on one field, duplicate case values / several defaults, zero-size array elements
RECURSIVE Degenerate(_, _)
Degenerate(code, lensOpen) ==
  IF code = <<>> THEN lensOpen # {}
  ELSE LET i == Head(code)
           lo == (IF i.tag = "length" THEN lensOpen \cup {i.name} ELSE lensOpen) \ (IF i.tag \in {"field", "array"} /\ i.len.k = "ref" THEN {i.len.ref} ELSE {})
       IN  \/ (i.tag = "switch" /\ (i.cases = <<>> \/ Cardinality({k \in 1..Len(i.cases) : i.cases[k].default}) > 1
                                    \/ \E k \in 1..Len(i.cases) : Degenerate(i.cases[k].body, {})))
           \/ (i.tag = "chunked" /\ Degenerate(i.body, {}))
           \/ (i.tag = "array" /\ IsStr(i.type) /\ ~i.delimited)            \* unbounded element in a plain array: a generator-specific restriction
           \/ Degenerate(Tail(code), lo)
=============================================================================
