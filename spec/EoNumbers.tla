---------------------------- MODULE EoNumbers ----------------------------
(* The EO number codec as mathematics (property C07) and the two-limb integers used by every  *)
(* other module for values that do not fit TLC's 32-bit integers (DESIGN.md 3.3).             *)
(*                                                                                            *)
(* Two formulations, one meaning:                                                             *)
(*   - plain integers (EncodeInt/DecodeInt): used by Apalache over the whole range and by     *)
(*     TLC wherever n < 2^31;                                                                 *)
(*   - limb pairs <<hi, lo>> with n = hi*65536 + lo, lo \in 0..65535, hi signed               *)
(*     (Encode/Decode): used by TLC everywhere else.  MC_EoNumbers checks they agree.         *)
EXTENDS Integers, Sequences

CHAR_MAX  == 253
SHORT_MAX == 64009
THREE_MAX == 16194277
\* INT_MAX = 4097152081 does not fit a TLC int; as limbs:
INT_MAX_L == <<62517, 37969>>
Pow253(i) == CASE i = 0 -> 1 [] i = 1 -> 253 [] i = 2 -> 64009 [] i = 3 -> 16194277

Min(a, b) == IF a < b THEN a ELSE b
Max(a, b) == IF a > b THEN a ELSE b

---------------------------------------------------------------------------
(* Plain-integer codec: the documented positional formula, from EoNumbersR with R = 253.    *)
I == INSTANCE EoNumbersR WITH R <- 253
EncodeInt(n)   == I!EncodeInt(n)
DecodeInt(s)   == I!DecodeInt(s)
Significant(s) == I!Significant(s)

---------------------------------------------------------------------------
(* Limb arithmetic.  Every intermediate stays below 2^31.                                    *)

L(n)        == <<n \div 65536, n % 65536>>            \* plain int (any sign) -> limbs
Norm(hi, lo) == <<hi + (lo \div 65536), lo % 65536>>    \* lo may be any 32-bit int
LAdd(a, b)  == Norm(a[1] + b[1], a[2] + b[2])
LNeg(a)     == Norm(-a[1], -a[2])
LSub(a, b)  == LAdd(a, LNeg(b))
\* k * a for |k| <= 32767 and |a[1]| < 2^15  (k*65535 < 2^31)
LMulS(a, k) == Norm(a[1] * k, a[2] * k)
LLess(a, b) == a[1] < b[1] \/ (a[1] = b[1] /\ a[2] < b[2])
LLeq(a, b)  == a = b \/ LLess(a, b)
LIsNeg(a)   == a[1] < 0
LZero       == <<0, 0>>
IsLimb(a)   == a \in Seq(Int) /\ Len(a) = 2 /\ a[2] \in 0..65535
\* conversion back, only where it fits
LSmall(a)   == a[1] \in -16384..16383
LToInt(a)   == a[1] * 65536 + a[2]

\* a = 253*q + r for a >= 0 (long division, base 65536)
LDivMod253(a) ==
  LET qh == a[1] \div 253
      t  == (a[1] % 253) * 65536 + a[2]
  IN  [q |-> <<qh, t \div 253>>, r |-> t % 253]

LPow253(i) == CASE i = 0 -> <<0, 1>> [] i = 1 -> <<0, 253>> [] i = 2 -> <<0, 64009>>
                [] i = 3 -> <<247, 6885>> [] i = 4 -> INT_MAX_L

RECURSIVE LDigits(_, _)
\* the k low base-253 digits of a (a >= 0), least significant first
LDigits(a, k) == IF k = 0 THEN <<>>
                 ELSE LET dm == LDivMod253(a) IN <<dm.r>> \o LDigits(dm.q, k - 1)

EncByte(a, ds, i) == IF i >= 1 /\ LLess(a, LPow253(i)) THEN 254 ELSE ds[i + 1] + 1
Encode(a) == LET ds == LDigits(a, 4)
             IN <<EncByte(a, ds, 0), EncByte(a, ds, 1), EncByte(a, ds, 2), EncByte(a, ds, 3)>>

LTerm(s, sig, k) == IF k <= sig THEN LMulS(LPow253(k - 1), s[k] - 1) ELSE LZero
Decode(s) == LET sig == Significant(s)
             IN  LAdd(LAdd(LTerm(s, sig, 1), LTerm(s, sig, 2)), LAdd(LTerm(s, sig, 3), LTerm(s, sig, 4)))

\* limits per integer type name (exclusive upper bound), as limbs
Limit(t) == CASE t = "byte" -> <<0, 256>> [] t = "char" -> <<0, 253>> [] t = "short" -> <<0, 64009>>
              [] t = "three" -> <<247, 6885>> [] t = "int" -> INT_MAX_L
Width(t) == CASE t = "byte" -> 1 [] t = "char" -> 1 [] t = "short" -> 2 [] t = "three" -> 3 [] t = "int" -> 4

---------------------------------------------------------------------------
(* The C07 theorems, as predicates of one number / one byte string.                          *)

NoZeroNoFF(enc) == \A i \in 1..4 : enc[i] # 0 /\ enc[i] # 255

\* plain-int versions (n < 2^31)
RoundTripInt(n)  == I!RoundTripInt(n)
PrefixInt(n)     == I!PrefixInt(n)
\* limb versions (whole range)
RoundTrip(a)     == Decode(Encode(a)) = a
Prefix(a)        == \A k \in 1..4 :
                       LLess(a, LPow253(k)) =>
                          /\ Decode(SubSeq(Encode(a), 1, k)) = a
                          /\ \A j \in (k + 1)..4 : Encode(a)[j] = 254
InRange(a)       == ~LIsNeg(a) /\ LLess(a, INT_MAX_L)
=============================================================================
