---------------------------- MODULE GenPipeline ----------------------------
(* The generator pipeline as a scheduling model (property C18).                                    *)
(* TREE is a sequence of files [dir, types |-> <<[name, refs]>>] (refs: names of custom types used). *)
(*   Discover(f)  files are found in ANY order (directory enumeration) and indexed as they are found  *)
(*   AddImport    while a type is emitted, the modules it needs are collected in ANY order (a set)     *)
(*   Render       the collected imports are written SORTED, then the body                               *)
(*   EmitInit     each file's __init__ star-imports its types in declaration order                      *)
(* File content is uninterpreted: a module is [imports, body |-> name].                                *)
(* OrderIndependent: whatever the schedule, the written files are the canonical ones.                  *)
(* Complete: the written paths are exactly dir/<name> for every declared type plus dir/__init__.        *)
EXTENDS Integers, Sequences, FiniteSets, TLC, SequencesExt
CONSTANT TREE
VARIABLES pending, order, table, phase, fi, ti, acc, out
pvars == <<pending, order, table, phase, fi, ti, acc, out>>

Files == 1..Len(TREE)
Path(d, name) == d \o "/" \o name
TypesOf(f) == TREE[f].types
RefSet(t) == {t.refs[x] : x \in 1..Len(t.refs)}        \* refs arrive as a JSON array
AllNames == UNION {{TypesOf(f)[k].name : k \in 1..Len(TypesOf(f))} : f \in Files}
\* the import a type needs for referenced type r, given where r was indexed
ImportOf(tab, r) == Path(tab[r], r)
\* canonical table and output, computed from the tree alone
CanonTable == [nm \in AllNames |-> TREE[CHOOSE f \in Files : \E k \in 1..Len(TypesOf(f)) : TypesOf(f)[k].name = nm].dir]
\* the canonical (sorted) listing of a set of import paths: a function of the set alone, not of the order it was filled in
SortedImports(S) == SetToSeq(S)
CanonModule(t) == [imports |-> SortedImports({ImportOf(CanonTable, r) : r \in RefSet(t)}), body |-> t.name]
CanonOut ==
  LET mods == UNION {{<<Path(TREE[f].dir, TypesOf(f)[k].name), CanonModule(TypesOf(f)[k])>> : k \in 1..Len(TypesOf(f))} : f \in Files}
      inits == {<<Path(TREE[f].dir, "__init__"), [imports |-> [k \in 1..Len(TypesOf(f)) |-> TypesOf(f)[k].name], body |-> "__init__"]>> : f \in Files}
  IN  [p \in {x[1] : x \in mods \cup inits} |-> (CHOOSE x \in mods \cup inits : x[1] = p)[2]]

Init == /\ pending = Files /\ order = <<>> /\ table = [x \in {} |-> ""] /\ phase = "discover"
        /\ fi = 1 /\ ti = 1 /\ acc = {} /\ out = [x \in {} |-> 0]
\* discovery + indexing of one file (phase 1)
Discover(f) == /\ phase = "discover" /\ f \in pending
               /\ pending' = pending \ {f} /\ order' = Append(order, f)
               /\ table' = [nm \in DOMAIN table \cup {TypesOf(f)[k].name : k \in 1..Len(TypesOf(f))} |->
                              IF nm \in DOMAIN table THEN table[nm] ELSE TREE[f].dir]
               /\ phase' = (IF pending = {f} THEN "emit" ELSE "discover")
               /\ UNCHANGED <<fi, ti, acc, out>>
Cur == TypesOf(order[fi])[ti]
\* phase 2: files in discovery order, types in declaration order
AddImport == /\ phase = "emit" /\ fi <= Len(order) /\ ti <= Len(TypesOf(order[fi]))
             /\ \E r \in RefSet(Cur) : ImportOf(table, r) \notin acc /\ acc' = acc \cup {ImportOf(table, r)}
             /\ UNCHANGED <<pending, order, table, phase, fi, ti, out>>
Render == /\ phase = "emit" /\ fi <= Len(order) /\ ti <= Len(TypesOf(order[fi]))
          /\ \A r \in RefSet(Cur) : ImportOf(table, r) \in acc
          /\ out' = (Path(TREE[order[fi]].dir, Cur.name) :> [imports |-> SortedImports(acc), body |-> Cur.name]) @@ out
          /\ acc' = {} /\ ti' = ti + 1
          /\ UNCHANGED <<pending, order, table, phase, fi>>
EmitInit == /\ phase = "emit" /\ fi <= Len(order) /\ ti = Len(TypesOf(order[fi])) + 1
            /\ out' = (Path(TREE[order[fi]].dir, "__init__") :>
                         [imports |-> [k \in 1..Len(TypesOf(order[fi])) |-> TypesOf(order[fi])[k].name], body |-> "__init__"]) @@ out
            /\ fi' = fi + 1 /\ ti' = 1
            /\ phase' = (IF fi = Len(order) THEN "done" ELSE "emit")
            /\ UNCHANGED <<pending, order, table, acc>>
Next == (\E f \in Files : Discover(f)) \/ AddImport \/ Render \/ EmitInit
Spec == Init /\ [][Next]_pvars

OrderIndependent == phase = "done" => out = CanonOut
Complete == phase = "done" => DOMAIN out = DOMAIN CanonOut
=============================================================================
