---------------------------- MODULE EoFrame ----------------------------
(* Growth beyond the listed properties: the wire frame of one EO packet, composed ONLY from library    *)
(* primitives, and the receiver's reassembly of frames from a TCP byte stream.                          *)
(*   frame      = EO-short(length of payload) ++ payload                                                 *)
(*   payload    = Encrypt(<<action, family>> ++ seq bytes ++ body)   (0xFF 0xFF "init" packets stay raw)   *)
(*   seq bytes  = one EO char when the sequence number is below CHAR_MAX, otherwise an EO short             *)
(*   Encrypt    = flip_msb . interleave . swap_multiples(m); Decrypt is the inverses in reverse order        *)
(* The receiver knows the number it expects (its own sequencer) and therefore the width to read.           *)
(* Reassembly: the stream arrives in fragments of arbitrary size; the receiver buffers, reads the two       *)
(* length bytes as soon as it has them and delivers a packet when the buffer holds the whole payload.       *)
EXTENDS Integers, Sequences, TLC
N  == INSTANCE EoNumbersR WITH R <- 253
EN == INSTANCE Encrypt

Take(s, n) == SubSeq(s, 1, IF n < Len(s) THEN n ELSE Len(s))
Drop(s, n) == SubSeq(s, n + 1, Len(s))
INITBYTE == 255

SeqWidth(seq) == IF seq >= 253 THEN 2 ELSE 1
SeqBytes(seq) == Take(N!EncodeInt(seq), SeqWidth(seq))
Encrypt(p, m) == EN!FlipMsb(EN!Interleave(EN!SwapMultiples(p, m).data))
Decrypt(w, m) == EN!SwapMultiples(EN!Deinterleave(EN!FlipMsb(w)), m).data
IsRaw(p) == Len(p) >= 2 /\ p[1] = INITBYTE /\ p[2] = INITBYTE

\* seq = -1: the packet carries no sequence number (server -> client, and the init exchange)
Plain(action, family, seq, body) == <<action, family>> \o (IF seq = -1 THEN <<>> ELSE SeqBytes(seq)) \o body
Payload(action, family, seq, body, m) ==
  LET p == Plain(action, family, seq, body) IN IF IsRaw(p) \/ m = 0 THEN p ELSE Encrypt(p, m)
Frame(action, family, seq, body, m) ==
  LET p == Payload(action, family, seq, body, m) IN Take(N!EncodeInt(Len(p)), 2) \o p

\* what a receiver that expects sequence number `expect` (-1: none) makes of one complete frame
Unframe(frame, expect, m) ==
  LET len   == N!DecodeInt(Take(frame, 2))
      pay   == SubSeq(frame, 3, 2 + len)
      plain == IF IsRaw(pay) \/ m = 0 THEN pay ELSE Decrypt(pay, m)
      w     == IF expect = -1 THEN 0 ELSE SeqWidth(expect)
  IN  [len |-> len, action |-> plain[1], family |-> plain[2],
       seq |-> IF expect = -1 THEN -1 ELSE N!DecodeInt(SubSeq(plain, 3, 2 + w)),
       body |-> Drop(plain, 2 + w), plain |-> plain]

\* ---- theorems of one frame ----
FrameRoundTrip(action, family, seq, body, m) ==
  LET f == Frame(action, family, seq, body, m)
      u == Unframe(f, seq, m)
  IN  /\ u.len = Len(f) - 2 /\ u.action = action /\ u.family = family /\ u.seq = seq /\ u.body = body
\* the length prefix never contains a zero byte and is a valid EO short
LengthWireSafe(action, family, seq, body, m) ==
  LET f == Frame(action, family, seq, body, m) IN f[1] \in 1..254 /\ f[2] \in 1..254

\* ---- the reassembly machine: stream (what is still in flight), buf (receiver's buffer), out (delivered payloads) ----
\* Deliver is deterministic given buf; Arrive(k) moves the next k bytes of the stream into the buffer
CanDeliver(buf) == Len(buf) >= 2 /\ Len(buf) >= 2 + N!DecodeInt(Take(buf, 2))
FirstPayload(buf) == SubSeq(buf, 3, 2 + N!DecodeInt(Take(buf, 2)))
Rest(buf) == Drop(buf, 2 + N!DecodeInt(Take(buf, 2)))
RECURSIVE Concat(_)
Concat(ss) == IF ss = <<>> THEN <<>> ELSE Head(ss) \o Concat(Tail(ss))
=============================================================================
