---------------------------- MODULE TreeData ----------------------------
(* Placeholder overwritten by the harness: the spec tree under test as a literal (a JSON-loaded      *)
(* constant would be re-read on every reference).                                                    *)
MCTree == << [dir |-> "net", types |-> << [name |-> "A", refs |-> <<>>], [name |-> "B", refs |-> <<"A">>] >>],
             [dir |-> "pub", types |-> << [name |-> "C", refs |-> <<"A", "B">>] >>] >>
=============================================================================
