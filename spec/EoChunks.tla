---------------------------- MODULE EoChunks ----------------------------
(* Chunk framing (property C06): EoWriter with sanitisation on emits chunks of typed fields        *)
(* separated by break bytes; EoReader in chunked mode reads each chunk according to a read plan     *)
(* (a prefix of the chunk's fields, then surplus reads, then next_chunk).                           *)
(* A field is a write call record (EoWire conventions); a chunk is a sequence of fields, only the    *)
(* last of which may be an unsized (trailing) string.                                               *)
EXTENDS EoWire

\* ---- writing ----
RECURSIVE WriteFields(_, _)
WriteFields(w, fs) == IF fs = <<>> THEN w ELSE WriteFields(WR!WApply(w, Head(fs)).w, Tail(fs))
RECURSIVE WriteChunks(_, _, _)
WriteChunks(w, chunks, i) ==
  IF i > Len(chunks) THEN w
  ELSE LET w1 == WriteFields(w, chunks[i])
           w2 == IF i < Len(chunks) THEN WR!WApply(w1, [op |-> "add_byte", n |-> <<0, 255>>]).w ELSE w1
       IN  WriteChunks(w2, chunks, i + 1)
SanWriter == [bytes |-> <<>>, san |-> TRUE]
Wire(chunks) == WriteChunks(SanWriter, chunks, 1).bytes
\* the encoding of one field on its own (what "no field encoding contains the break byte" talks about)
FieldBytes(f) == WR!WApply(SanWriter, f).w.bytes
NoBreakInField(f) == ~Has(FieldBytes(f), 255)

\* ---- reading: plan = [k |-> number of fields read as declared, extra |-> <<read calls>>] ----
PlanReads(chunk, plan) == [j \in 1..plan.k |-> MatchingRead(chunk[j], j = Len(chunk))] \o plan.extra
RECURSIVE DoReads(_, _, _)
\* returns [r, rets]
DoReads(r, reads, acc) == IF reads = <<>> THEN [r |-> r, rets |-> acc]
                          ELSE LET x == RD!RApply(r, Head(reads)) IN DoReads(x.r, Tail(reads), Append(acc, x.ret))
\* there may be MORE plans than chunks: a reader that asks for chunks that were never written finds them empty
ChunkAt(chunks, i) == IF i <= Len(chunks) THEN chunks[i] ELSE <<>>
RECURSIVE ReadChunks(_, _, _, _, _)
ReadChunks(r, chunks, plans, i, acc) ==
  IF i > Len(plans) THEN acc
  ELSE LET x == DoReads(r, PlanReads(ChunkAt(chunks, i), plans[i]), <<>>)
           n == RD!RApply(x.r, [op |-> "next_chunk"])
       IN  ReadChunks(n.r, chunks, plans, i + 1, Append(acc, x.rets))
ChunkedReader(bytes) == [RD!NewReader(bytes) EXCEPT !.chunked = TRUE]
\* results[c][j]: value returned by the j-th read made in chunk c
Results(chunks, plans) == ReadChunks(ChunkedReader(Wire(chunks)), chunks, plans, 1, <<>>)
\* the same chunk written and read with nothing around it
Alone(chunk, plan) == DoReads(ChunkedReader(Wire(<<chunk>>)), PlanReads(chunk, plan), <<>>).rets

\* ---- C06 predicates, over results however obtained (model or observation) ----
ZeroValue(call) == CASE call.op = "get_byte" -> 0
                     [] call.op \in {"get_char", "get_short", "get_three", "get_int"} -> <<0, 0>>
                     [] OTHER -> <<>>
PrefixCorrect(chunk, plan, rets) ==
  \A j \in 1..plan.k : Lossy(chunk[j], TRUE) \/ rets[j] = Expected(chunk[j], TRUE)
SurplusZero(chunk, plan, rets) ==
  plan.k = Len(chunk) => \A j \in 1..Len(plan.extra) : rets[plan.k + j] = ZeroValue(plan.extra[j])
NonInterference(chunks, plans, results) == \A c \in 1..Len(plans) : results[c] = Alone(ChunkAt(chunks, c), plans[c])
=============================================================================
