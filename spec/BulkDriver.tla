---------------------------- MODULE BulkDriver ----------------------------
(* Pattern B (DESIGN.md section 4): tables recorded from the real code are checked block by  *)
(* block.  One state per block; a two-level tree (group, block) so that all workers share   *)
(* the blocks.  Verdicts are total: every block prints one JSON line with its row count and   *)
(* the indices of the rows that disagree with the specification; nothing stops at the first.  *)
EXTENDS Integers, Sequences, TLC, Json, IOUtils
CONSTANT BadRows(_)      \* block record |-> set of (1-based) indices of disagreeing rows
VARIABLES g, k
bvars == <<g, k>>

Dir    == IOEnv.BULK_DIR
Index  == JsonDeserialize(Dir \o "/index.json")
G      == 32
Block(b) == JsonDeserialize(Dir \o "/block_" \o ToString(b) \o ".json")

BInit == g = 0 /\ k = 0
BNext == \/ g = 0 /\ g' \in 1..G /\ k' = 0
         \/ g > 0 /\ k = 0 /\ k' \in {b \in 1..Index.nblocks : b % G = g - 1} /\ g' = g

\* always TRUE; evaluated once per block state
Report == k = 0 \/ LET blk == Block(k)
                       bad == BadRows(blk)
                   IN  PrintT(ToJson([blk |-> k, n |-> Len(blk.rows), bad |-> bad]))
=============================================================================
