---------------------------- MODULE EoBytes ----------------------------
(* Byte strings and small sequence helpers shared by every module.                           *)
EXTENDS Integers, Sequences
Byte == 0..255
BREAK == 255

Reverse(s) == [i \in 1..Len(s) |-> s[Len(s) - i + 1]]
Take(s, n) == SubSeq(s, 1, IF n < Len(s) THEN n ELSE Len(s))
Drop(s, n) == SubSeq(s, n + 1, Len(s))
\* index (1-based) of the first element equal to b at or after position from, or 0
RECURSIVE FirstAt(_, _, _)
FirstAt(s, b, from) == IF from > Len(s) THEN 0 ELSE IF s[from] = b THEN from ELSE FirstAt(s, b, from + 1)
Has(s, b) == \E i \in 1..Len(s) : s[i] = b
Count(s, b) == LET RECURSIVE C(_)
                   C(i) == IF i = 0 THEN 0 ELSE C(i - 1) + (IF s[i] = b THEN 1 ELSE 0)
               IN  C(Len(s))
IsPrefixOf(a, b) == Len(a) <= Len(b) /\ SubSeq(b, 1, Len(a)) = a
Repeat(b, n) == [i \in 1..n |-> b]
Map(s, F(_)) == [i \in 1..Len(s) |-> F(s[i])]
=============================================================================
