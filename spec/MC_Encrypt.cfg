CONSTANTS
  MAXLEN = 6
  RUNLEN = 4
  DEPTH = 3
INIT Init
NEXT Next
CHECK_DEADLOCK FALSE
INVARIANT InvWeaveInverse
INVARIANT InvWeavePerm
INVARIANT InvFlip
INVARIANT InvSwap
INVARIANT InvSwapRefuse
INVARIANT InvPipeline
INVARIANT InvLossless
