---------------------------- MODULE Bulk_EoWire ----------------------------
(* Judges traces OBSERVED on the real EoWriter / EoReader with the predicates of C09 and C04     *)
(* (DESIGN.md 4.1: each property's own predicate, evaluated on the observation).                *)
(* row = [w |-> <<[call, exc, after, san]>>, r |-> <<[call, ret, exc]>>, rem |-> remaining at end] *)
(*   w: every write call with the sanitisation mode observed before it and the writer's bytes    *)
(*      observed after it;  r: the read-back calls made on a reader over the final bytes.         *)
(* Verdict entries <<row, event, code>>: 1 Atomic 2 ExactLength 3 SanitisedNoFF 4 ExactImage     *)
(* 8 wrong accept/refuse decision (C09); 5 read-back value 6 not consumed exactly 7 read raised (C04); 11 an acceptable write raised (C04); 10 the writer's output, once taken, changed (C04); 9 harness made a read     *)
(* that is not the matching one (machinery).                                                     *)
EXTENDS EoWire, TLC
Before(ws, i) == IF i = 1 THEN <<>> ELSE ws[i - 1].after
WCodes(ws, i) ==
  LET h == ws[i]
      b == Before(ws, i)
  IN  (IF WR!Atomic(h.call, b, h.after, h.exc) THEN {} ELSE {1})
      \cup (IF h.call.op = "set_san" \/ WR!ExactLength(h.call, b, h.after, h.exc) THEN {} ELSE {2})
      \cup (IF WR!SanitisedNoFF(h.call, h.san, b, h.after, h.exc) THEN {} ELSE {3})
      \cup (IF WR!ExactImage(h.call, h.san, b, h.after, h.exc) THEN {} ELSE {4})
      \* refused exactly when the spec refuses (the decision depends on the call alone)
      \cup (IF h.exc = WR!WApply(WR!NewWriter, h.call).exc THEN {} ELSE {8})
      \* a write the spec accepts could not be made at all: nothing can be read back (C04)
      \cup (IF h.exc # "" /\ WR!WApply(WR!NewWriter, h.call).exc = "" THEN {11} ELSE {})
AcceptedIdx(ws) == SelectSeq([i \in 1..Len(ws) |-> i], LAMBDA i : ws[i].exc = "" /\ ws[i].call.op # "set_san")
RCodes(ws, rs, acc, j) ==
  LET h == ws[acc[j]]
      x == rs[j]
  IN  (IF x.call = MatchingRead(h.call, j = Len(acc)) THEN {} ELSE {9})
      \cup (IF x.exc = "" THEN {} ELSE {7})
      \cup (IF x.exc # "" \/ Lossy(h.call, h.san) \/ x.ret = Expected(h.call, h.san) THEN {} ELSE {5})
RowBad(k, row) ==
  LET acc == AcceptedIdx(row.w)
  IN  UNION {{<<k, i, c>> : c \in WCodes(row.w, i)} : i \in 1..Len(row.w)}
      \cup (IF Len(row.r) # Len(acc) THEN {<<k, 0, 9>>}
            ELSE UNION {{<<k, 1000 + j, c>> : c \in RCodes(row.w, row.r, acc, j)} : j \in 1..Len(acc)})
      \cup (IF row.rem = 0 THEN {} ELSE {<<k, 2000, 6>>})
      \cup (IF row.stable = 1 THEN {} ELSE {<<k, 2001, 10>>})       \* output taken earlier changed when more was written
Bad(blk) == UNION {RowBad(k, blk.rows[k]) : k \in 1..Len(blk.rows)}
VARIABLES g, k
D == INSTANCE BulkDriver WITH BadRows <- Bad
Init == D!BInit
Next == D!BNext
Report == D!Report
=============================================================================
