CONSTANTS
  NBLK = 253
  BLK = 253
INIT Init
NEXT Next
CHECK_DEADLOCK FALSE
INVARIANT InvRoundTrip
INVARIANT InvWireSafe
INVARIANT InvPrefix
INVARIANT InvLimbAgree
INVARIANT InvInRange
