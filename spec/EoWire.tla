---------------------------- MODULE EoWire ----------------------------
(* Writer output read back by the reader (property C04), on top of EoWriter and EoReader's      *)
(* functional cores: for each accepted write the spec names the MATCHING read and what it must   *)
(* return; C09's predicates are re-exported so that one observed trace can be judged for both.   *)
EXTENDS EoNumbers, EoStrings, Cp1252
WR == INSTANCE EoWriter WITH wbytes <- <<>>, san <- FALSE, outcome <- ""
RD == INSTANCE EoReader WITH readers <- <<>>, ret <- 0, exc <- ""

\* the read call that mirrors write call c; a trailing plain/encoded string is read with the unsized call
MatchingRead(c, isLast) ==
  CASE c.op = "add_byte"   -> [op |-> "get_byte"]
    [] c.op = "add_bytes"  -> [op |-> "get_bytes", n |-> Len(c.bytes)]
    [] c.op = "add_char"   -> [op |-> "get_char"]
    [] c.op = "add_short"  -> [op |-> "get_short"]
    [] c.op = "add_three"  -> [op |-> "get_three"]
    [] c.op = "add_int"    -> [op |-> "get_int"]
    [] c.op = "add_string" -> IF isLast THEN [op |-> "get_string"] ELSE [op |-> "get_fixed_string", n |-> Len(c.s), padded |-> FALSE]
    [] c.op = "add_encoded_string" -> IF isLast THEN [op |-> "get_encoded_string"] ELSE [op |-> "get_fixed_encoded_string", n |-> Len(c.s), padded |-> FALSE]
    [] c.op = "add_fixed_string" -> [op |-> "get_fixed_string", n |-> c.len, padded |-> c.padded]
    [] c.op = "add_fixed_encoded_string" -> [op |-> "get_fixed_encoded_string", n |-> c.len, padded |-> c.padded]

IsStr(c) == WR!IsStringOp(c)
IsEnc(c) == c.op \in {"add_encoded_string", "add_fixed_encoded_string"}
IsPadded(c) == c.op \in {"add_fixed_string", "add_fixed_encoded_string"} /\ c.padded
\* the bytes of the string as emitted (sanitised if the mode was on when it was written)
Emitted(c, sanThen) == IF sanThen THEN [i \in 1..Len(c.s) |-> IF ToByte(c.s[i]) = 255 THEN 121 ELSE ToByte(c.s[i])] ELSE StrToBytes(c.s)
\* what the format cannot carry (the property's stated exclusions), as predicates of the call
Lossy(c, sanThen) == IsStr(c) /\ ( (IsPadded(c) /\ Has(Emitted(c, sanThen), 255)) \/ (IsEnc(c) /\ Has(Emitted(c, sanThen), 126)) )
\* what the matching read must return
Expected(c, sanThen) ==
  CASE c.op = "add_byte"  -> LToInt(c.n)
    [] c.op = "add_bytes" -> c.bytes
    [] c.op \in {"add_char", "add_short", "add_three", "add_int"} -> c.n
    [] OTHER -> BytesToStr(Emitted(c, sanThen))          \* the cp1252 image
=============================================================================
