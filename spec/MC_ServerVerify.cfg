CONSTANT W = 20000
INIT Init
NEXT Next
CHECK_DEADLOCK FALSE
INVARIANT InvBound
