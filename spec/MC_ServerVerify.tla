---------------------------- MODULE MC_ServerVerify ----------------------------
(* C11 at model level on boundary windows (TLC); Apalache proves the bound on the whole range. *)
EXTENDS ServerVerify, TLC
CONSTANT W
VARIABLES win, i
vars == <<win, i>>
Starts == <<0, 11092004 - W, DOC_BOUND - W + 1, CHALLENGE_LIMIT - W>>
c == Starts[win] + i
Init == win \in 1..4 /\ i = 0
Next == i < W - 1 /\ i' = i + 1 /\ UNCHANGED win
InvBound == c <= DOC_BOUND => FitsEoInt(Hash(c))
\* tightness witness (must be VIOLATED): just above the documented bound the hash does go negative
WitnessNeverNegative == Hash(c) >= 0
=============================================================================
