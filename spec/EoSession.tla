---------------------------- MODULE EoSession ----------------------------
(* Growth beyond the listed properties: a client and a server built ONLY from the library's         *)
(* primitives, composed the way the EO protocol uses them.                                           *)
(*   handshake   client sends a challenge; server answers with ServerVerify!Hash(challenge) and an    *)
(*               INIT sequence start (seq1, seq2 chosen as SequenceStart allows); the client checks     *)
(*               the hash and reconstructs the start value from the two wire components                 *)
(*   traffic     every client packet carries Sequencer's next value; the server, applying the same      *)
(*               history to its own sequencer, must compute the same number (lockstep)                  *)
(*   ping        the server draws a new PING start and sends its components; packets already in flight  *)
(*               were numbered with the old start, so the server keeps the new start PENDING until the  *)
(*               client's pong arrives, the client switches when it sees the ping                       *)
(*   framing     each packet body is encrypted with the negotiated multiples                             *)
(*               (swap_multiples, interleave, flip_msb) and decrypted with the inverses in reverse        *)
(*   frames      every packet after the init exchange travels as EoFrame!Frame (EO-short length prefix,    *)
(*               action, family, sequence number as char or short, body), client->server frames are      *)
(*               encrypted with MULTS[1], server->client frames (no sequence number) with MULTS[2]         *)
(*   account     a sequenced ACCOUNT_REQUEST makes the server draw an ACCOUNT_REPLY start; the client waits  *)
(*               for the reply (it still answers pings); a server that has a ping outstanding postpones the   *)
(*               reply until the pong, otherwise the two new starts would be applied in different orders      *)
(*               at the two ends (TLC finds that race in seconds when the guard is removed)                   *)
(* Channels are FIFO (TCP).  Checked: the hash is accepted by a genuine client, every wire component fits  *)
(* its field, the two sequencers never disagree, decryption returns the plaintext.                       *)
EXTENDS Integers, Sequences, TLC
CONSTANTS CHALLENGES, INITS, PINGS, ACCTS, MAXSENT, MAXSSENT, MAXPINGS, MAXACCTS, BODIES, MULTS, POSTPONE
\* INITS / PINGS: sets of <<seq1, seq2>> the server may draw; BODIES: plaintext bodies; MULTS: <<server-recv multiple, client-recv multiple>>
SV == INSTANCE ServerVerify
EN == INSTANCE Encrypt
F  == INSTANCE EoFrame
SS == INSTANCE SequenceStart WITH phase <- "x", kind <- "x", ndraws <- 0, value <- 0, seq1 <- 0, seq2 <- 0

VARIABLES cstate,      \* client: "new" | "waiting" | "ready" | "rejected"
          challenge,
          cstart, ccounter,           \* client's sequencer (Sequencer.tla's start value and counter)
          sstart, scounter, spending, \* server's sequencer and the start announced by a ping but not yet in force (-1: none)
          c2s, s2c,                   \* FIFO channels
          sent, pings, lastOk,
          owed,                       \* the server has consumed an ACCOUNT_REQUEST and not yet replied
          ssent, accts
vars == <<cstate, challenge, cstart, ccounter, sstart, scounter, spending, c2s, s2c, sent, pings, lastOk, owed, ssent, accts>>
\* (action, family) bytes of the packet kinds used here
DATA == <<4, 21>>  PONG == <<6, 3>>  PING == <<15, 3>>  ACCTREQ == <<1, 5>>  ACCTREPLY == <<3, 5>>  SDATA == <<10, 18>>


Init == /\ cstate = "new" /\ challenge = -1 /\ cstart = -1 /\ ccounter = 0
        /\ sstart = -1 /\ scounter = 0 /\ spending = -1
        /\ c2s = <<>> /\ s2c = <<>> /\ sent = 0 /\ pings = 0 /\ lastOk = TRUE
        /\ owed = FALSE /\ ssent = 0 /\ accts = 0

ClientHello == /\ cstate = "new" /\ \E c \in CHALLENGES : challenge' = c /\ c2s' = Append(c2s, [t |-> "init", challenge |-> c])
               /\ cstate' = "waiting" /\ UNCHANGED <<cstart, ccounter, sstart, scounter, spending, s2c, sent, pings, lastOk, owed, ssent, accts>>
ServerHello == /\ c2s # <<>> /\ Head(c2s).t = "init"
               /\ \E p \in INITS :
                    LET v == SS!Reconstruct("init", 0, p[1], p[2])
                    IN  /\ SS!ResultOK("init", v, p[1], p[2])                 \* only starts the library may generate
                        /\ sstart' = v /\ scounter' = 0
                        /\ s2c' = Append(s2c, [t |-> "init_reply", hash |-> SV!Hash(Head(c2s).challenge), seq1 |-> p[1], seq2 |-> p[2]])
               /\ c2s' = Tail(c2s) /\ UNCHANGED <<cstate, challenge, cstart, ccounter, spending, sent, pings, lastOk, owed, ssent, accts>>
ClientInitReply == /\ s2c # <<>> /\ Head(s2c).t = "init_reply" /\ cstate = "waiting"
                   /\ IF Head(s2c).hash = SV!Hash(challenge)
                      THEN cstate' = "ready" /\ cstart' = SS!Reconstruct("init", 0, Head(s2c).seq1, Head(s2c).seq2) /\ ccounter' = 0
                      ELSE cstate' = "rejected" /\ UNCHANGED <<cstart, ccounter>>
                   /\ s2c' = Tail(s2c) /\ UNCHANGED <<challenge, sstart, scounter, spending, c2s, sent, pings, lastOk, owed, ssent, accts>>
\* Sequencer!NextSequence on the client, the packet framed and encrypted for the server
ClientSend == /\ cstate = "ready" /\ sent < MAXSENT
              /\ \E b \in BODIES : c2s' = Append(c2s, [t |-> "data", seq |-> cstart + ccounter, plain |-> b,
                                                        wire |-> F!Frame(DATA[1], DATA[2], cstart + ccounter, b, MULTS[1])])
              /\ ccounter' = (ccounter + 1) % 10 /\ sent' = sent + 1
              /\ UNCHANGED <<cstate, challenge, cstart, sstart, scounter, spending, s2c, pings, lastOk, owed, ssent, accts>>
\* the server numbers the packet itself (same history, own sequencer); the number it expects tells it how wide the field is
Received(msg, kind) == LET u == F!Unframe(msg.wire, sstart + scounter, MULTS[1])
                       IN  u.seq = sstart + scounter /\ u.action = kind[1] /\ u.family = kind[2] /\ u.len = Len(msg.wire) - 2
ServerRecv == /\ c2s # <<>> /\ Head(c2s).t = "data"
              /\ lastOk' = (Received(Head(c2s), DATA) /\ F!Unframe(Head(c2s).wire, sstart + scounter, MULTS[1]).body = Head(c2s).plain)
              /\ scounter' = (scounter + 1) % 10 /\ c2s' = Tail(c2s)
              /\ UNCHANGED <<cstate, challenge, cstart, ccounter, sstart, spending, s2c, sent, pings, owed, ssent, accts>>
\* unsequenced traffic in the other direction, encrypted with the other multiple
ServerSend == /\ sstart # -1 /\ ssent < MAXSSENT
              /\ \E b \in BODIES : s2c' = Append(s2c, [t |-> "sdata", plain |-> b, wire |-> F!Frame(SDATA[1], SDATA[2], -1, b, MULTS[2])])
              /\ ssent' = ssent + 1
              /\ UNCHANGED <<cstate, challenge, cstart, ccounter, sstart, scounter, spending, c2s, sent, pings, lastOk, owed, accts>>
ClientRecv == /\ s2c # <<>> /\ Head(s2c).t = "sdata" /\ cstate \in {"ready", "awaiting"}
              /\ LET u == F!Unframe(Head(s2c).wire, -1, MULTS[2])
                 IN  lastOk' = (u.body = Head(s2c).plain /\ u.action = SDATA[1] /\ u.family = SDATA[2])
              /\ s2c' = Tail(s2c)
              /\ UNCHANGED <<cstate, challenge, cstart, ccounter, sstart, scounter, spending, c2s, sent, pings, owed, ssent, accts>>
ServerPing == /\ sstart # -1 /\ spending = -1 /\ pings < MAXPINGS
              /\ \E p \in PINGS :
                    LET v == SS!Reconstruct("ping", 0, p[1], p[2])
                    IN  /\ SS!ResultOK("ping", v, p[1], p[2])
                        /\ spending' = v /\ s2c' = Append(s2c, [t |-> "ping", seq1 |-> p[1], seq2 |-> p[2]])
              /\ pings' = pings + 1 /\ UNCHANGED <<cstate, challenge, cstart, ccounter, sstart, scounter, c2s, sent, lastOk, owed, ssent, accts>>
\* Sequencer!SetStart on the client (never touches the counter); the pong is itself a sequenced packet
ClientPing == /\ s2c # <<>> /\ Head(s2c).t = "ping" /\ cstate \in {"ready", "awaiting"}
              /\ cstart' = SS!Reconstruct("ping", 0, Head(s2c).seq1, Head(s2c).seq2)
              /\ c2s' = Append(c2s, [t |-> "pong", seq |-> cstart' + ccounter, wire |-> F!Frame(PONG[1], PONG[2], cstart' + ccounter, <<>>, MULTS[1])])
              /\ ccounter' = (ccounter + 1) % 10 /\ s2c' = Tail(s2c)
              /\ UNCHANGED <<cstate, challenge, sstart, scounter, spending, sent, pings, lastOk, owed, ssent, accts>>
\* the pong is the first packet numbered with the new start: the server switches, then checks it
ServerPong == /\ c2s # <<>> /\ Head(c2s).t = "pong"
              /\ sstart' = spending /\ spending' = -1
              /\ LET u == F!Unframe(Head(c2s).wire, spending + scounter, MULTS[1])
                 IN  lastOk' = (u.seq = spending + scounter /\ u.action = PONG[1] /\ u.family = PONG[2] /\ u.body = <<>>)
              /\ scounter' = (scounter + 1) % 10 /\ c2s' = Tail(c2s)
              /\ UNCHANGED <<cstate, challenge, cstart, ccounter, s2c, sent, pings, owed, ssent, accts>>
\* ACCOUNT_REQUEST: a sequenced packet after which the client waits for the reply
ClientAcctRequest == /\ cstate = "ready" /\ accts < MAXACCTS
                     /\ c2s' = Append(c2s, [t |-> "acct_req", seq |-> cstart + ccounter,
                                            wire |-> F!Frame(ACCTREQ[1], ACCTREQ[2], cstart + ccounter, <<>>, MULTS[1])])
                     /\ ccounter' = (ccounter + 1) % 10 /\ accts' = accts + 1 /\ cstate' = "awaiting"
                     /\ UNCHANGED <<challenge, cstart, sstart, scounter, spending, s2c, sent, pings, lastOk, owed, ssent>>
ServerAcctRecv == /\ c2s # <<>> /\ Head(c2s).t = "acct_req"
                  /\ lastOk' = Received(Head(c2s), ACCTREQ)
                  /\ scounter' = (scounter + 1) % 10 /\ c2s' = Tail(c2s) /\ owed' = TRUE
                  /\ UNCHANGED <<cstate, challenge, cstart, ccounter, sstart, spending, s2c, sent, pings, ssent, accts>>
\* the reply carries the new start as one char; it is postponed while a ping is outstanding (POSTPONE = FALSE shows the race)
ServerAcctReply == /\ owed /\ (POSTPONE => spending = -1)
                   /\ \E v \in ACCTS :
                        /\ SS!ResultOK("account", v, 0, 0)
                        /\ sstart' = v
                        /\ s2c' = Append(s2c, [t |-> "acct_reply", value |-> v, wire |-> F!Frame(ACCTREPLY[1], ACCTREPLY[2], -1, F!Take(F!N!EncodeInt(v), 1), MULTS[2])])
                   /\ owed' = FALSE
                   /\ UNCHANGED <<cstate, challenge, cstart, ccounter, scounter, spending, c2s, sent, pings, lastOk, ssent, accts>>
ClientAcctReply == /\ s2c # <<>> /\ Head(s2c).t = "acct_reply" /\ cstate = "awaiting"
                   /\ LET u == F!Unframe(Head(s2c).wire, -1, MULTS[2])
                      IN  /\ cstart' = F!N!DecodeInt(u.body)
                          /\ lastOk' = (u.action = ACCTREPLY[1] /\ u.family = ACCTREPLY[2] /\ F!N!DecodeInt(u.body) = Head(s2c).value)
                   /\ cstate' = "ready" /\ s2c' = Tail(s2c)
                   /\ UNCHANGED <<challenge, ccounter, sstart, scounter, spending, c2s, sent, pings, owed, ssent, accts>>
Next == \/ ClientHello \/ ServerHello \/ ClientInitReply \/ ClientSend \/ ServerRecv \/ ServerSend \/ ClientRecv
        \/ ServerPing \/ ClientPing \/ ServerPong \/ ClientAcctRequest \/ ServerAcctRecv \/ ServerAcctReply \/ ClientAcctReply
Spec == Init /\ [][Next]_vars

\* ---- properties ----
GenuineServerAccepted == cstate # "rejected"
Lockstep == lastOk                                       \* every packet the server received carried the number it expected
HashFitsEoInt == \A i \in 1..Len(s2c) : s2c[i].t = "init_reply" => SV!FitsEoInt(s2c[i].hash)
ComponentsTransmittable ==
  \A i \in 1..Len(s2c) : /\ (s2c[i].t = "init_reply" => SS!Transmittable(s2c[i].seq1, 1) /\ SS!Transmittable(s2c[i].seq2, 1))
                          /\ (s2c[i].t = "ping" => SS!Transmittable(s2c[i].seq1, 2) /\ SS!Transmittable(s2c[i].seq2, 1))
StartsAgreeWhenQuiet == (c2s = <<>> /\ s2c = <<>> /\ cstate = "ready") => (cstart = sstart /\ ccounter = scounter /\ spending = -1 /\ ~owed)
=============================================================================
