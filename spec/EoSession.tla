---------------------------- MODULE EoSession ----------------------------
(* Growth beyond the listed properties: a client and a server built ONLY from the library's         *)
(* primitives, composed the way the EO protocol uses them.                                           *)
(*   handshake   client sends a challenge; server answers with ServerVerify!Hash(challenge) and an    *)
(*               INIT sequence start (seq1, seq2 chosen as SequenceStart allows); the client checks     *)
(*               the hash and reconstructs the start value from the two wire components                 *)
(*   traffic     every client packet carries Sequencer's next value; the server, applying the same      *)
(*               history to its own sequencer, must compute the same number (lockstep)                  *)
(*   ping        the server draws a new PING start and sends its components; packets already in flight  *)
(*               were numbered with the old start, so the server keeps the new start PENDING until the  *)
(*               client's pong arrives, the client switches when it sees the ping                       *)
(*   framing     each packet body is encrypted with the negotiated multiples                             *)
(*               (swap_multiples, interleave, flip_msb) and decrypted with the inverses in reverse        *)
(* Channels are FIFO (TCP).  Checked: the hash is accepted by a genuine client, every wire component fits  *)
(* its field, the two sequencers never disagree, decryption returns the plaintext.                       *)
EXTENDS Integers, Sequences, TLC
CONSTANTS CHALLENGES, INITS, PINGS, MAXSENT, MAXPINGS, BODIES, MULTS
\* INITS / PINGS: sets of <<seq1, seq2>> the server may draw; BODIES: plaintext bodies; MULTS: <<server-recv multiple, client-recv multiple>>
SV == INSTANCE ServerVerify
EN == INSTANCE Encrypt
SS == INSTANCE SequenceStart WITH phase <- "x", kind <- "x", ndraws <- 0, value <- 0, seq1 <- 0, seq2 <- 0

VARIABLES cstate,      \* client: "new" | "waiting" | "ready" | "rejected"
          challenge,
          cstart, ccounter,           \* client's sequencer (Sequencer.tla's start value and counter)
          sstart, scounter, spending, \* server's sequencer and the start announced by a ping but not yet in force (-1: none)
          c2s, s2c,                   \* FIFO channels
          sent, pings, lastOk
vars == <<cstate, challenge, cstart, ccounter, sstart, scounter, spending, c2s, s2c, sent, pings, lastOk>>

Encrypt(body, m) == EN!FlipMsb(EN!Interleave(EN!SwapMultiples(body, m).data))
Decrypt(wire, m) == EN!SwapMultiples(EN!Deinterleave(EN!FlipMsb(wire)), m).data

Init == /\ cstate = "new" /\ challenge = -1 /\ cstart = -1 /\ ccounter = 0
        /\ sstart = -1 /\ scounter = 0 /\ spending = -1
        /\ c2s = <<>> /\ s2c = <<>> /\ sent = 0 /\ pings = 0 /\ lastOk = TRUE

ClientHello == /\ cstate = "new" /\ \E c \in CHALLENGES : challenge' = c /\ c2s' = Append(c2s, [t |-> "init", challenge |-> c])
               /\ cstate' = "waiting" /\ UNCHANGED <<cstart, ccounter, sstart, scounter, spending, s2c, sent, pings, lastOk>>
ServerHello == /\ c2s # <<>> /\ Head(c2s).t = "init"
               /\ \E p \in INITS :
                    LET v == SS!Reconstruct("init", 0, p[1], p[2])
                    IN  /\ SS!ResultOK("init", v, p[1], p[2])                 \* only starts the library may generate
                        /\ sstart' = v /\ scounter' = 0
                        /\ s2c' = Append(s2c, [t |-> "init_reply", hash |-> SV!Hash(Head(c2s).challenge), seq1 |-> p[1], seq2 |-> p[2]])
               /\ c2s' = Tail(c2s) /\ UNCHANGED <<cstate, challenge, cstart, ccounter, spending, sent, pings, lastOk>>
ClientInitReply == /\ s2c # <<>> /\ Head(s2c).t = "init_reply" /\ cstate = "waiting"
                   /\ IF Head(s2c).hash = SV!Hash(challenge)
                      THEN cstate' = "ready" /\ cstart' = SS!Reconstruct("init", 0, Head(s2c).seq1, Head(s2c).seq2) /\ ccounter' = 0
                      ELSE cstate' = "rejected" /\ UNCHANGED <<cstart, ccounter>>
                   /\ s2c' = Tail(s2c) /\ UNCHANGED <<challenge, sstart, scounter, spending, c2s, sent, pings, lastOk>>
\* Sequencer!NextSequence on the client, packet body encrypted for the server
ClientSend == /\ cstate = "ready" /\ sent < MAXSENT
              /\ \E b \in BODIES : c2s' = Append(c2s, [t |-> "data", seq |-> cstart + ccounter, wire |-> Encrypt(b, MULTS[1]), plain |-> b])
              /\ ccounter' = (ccounter + 1) % 10 /\ sent' = sent + 1
              /\ UNCHANGED <<cstate, challenge, cstart, sstart, scounter, spending, s2c, pings, lastOk>>
\* the server numbers the packet itself (same history, own sequencer) and decrypts it
ServerRecv == /\ c2s # <<>> /\ Head(c2s).t = "data"
              /\ lastOk' = (Head(c2s).seq = sstart + scounter /\ Decrypt(Head(c2s).wire, MULTS[1]) = Head(c2s).plain)
              /\ scounter' = (scounter + 1) % 10 /\ c2s' = Tail(c2s)
              /\ UNCHANGED <<cstate, challenge, cstart, ccounter, sstart, spending, s2c, sent, pings>>
ServerPing == /\ sstart # -1 /\ spending = -1 /\ pings < MAXPINGS
              /\ \E p \in PINGS :
                    LET v == SS!Reconstruct("ping", 0, p[1], p[2])
                    IN  /\ SS!ResultOK("ping", v, p[1], p[2])
                        /\ spending' = v /\ s2c' = Append(s2c, [t |-> "ping", seq1 |-> p[1], seq2 |-> p[2]])
              /\ pings' = pings + 1 /\ UNCHANGED <<cstate, challenge, cstart, ccounter, sstart, scounter, c2s, sent, lastOk>>
\* Sequencer!SetStart on the client (never touches the counter); the pong is itself a sequenced packet
ClientPing == /\ s2c # <<>> /\ Head(s2c).t = "ping" /\ cstate = "ready"
              /\ cstart' = SS!Reconstruct("ping", 0, Head(s2c).seq1, Head(s2c).seq2)
              /\ c2s' = Append(c2s, [t |-> "pong", seq |-> cstart' + ccounter])
              /\ ccounter' = (ccounter + 1) % 10 /\ s2c' = Tail(s2c)
              /\ UNCHANGED <<cstate, challenge, sstart, scounter, spending, sent, pings, lastOk>>
\* the pong is the first packet numbered with the new start: the server switches, then checks it
ServerPong == /\ c2s # <<>> /\ Head(c2s).t = "pong"
              /\ sstart' = spending /\ spending' = -1
              /\ lastOk' = (Head(c2s).seq = spending + scounter)
              /\ scounter' = (scounter + 1) % 10 /\ c2s' = Tail(c2s)
              /\ UNCHANGED <<cstate, challenge, cstart, ccounter, s2c, sent, pings>>
Next == ClientHello \/ ServerHello \/ ClientInitReply \/ ClientSend \/ ServerRecv \/ ServerPing \/ ClientPing \/ ServerPong
Spec == Init /\ [][Next]_vars

\* ---- properties ----
GenuineServerAccepted == cstate # "rejected"
Lockstep == lastOk                                       \* every packet the server received carried the number it expected
HashFitsEoInt == \A i \in 1..Len(s2c) : s2c[i].t = "init_reply" => SV!FitsEoInt(s2c[i].hash)
ComponentsTransmittable ==
  \A i \in 1..Len(s2c) : /\ (s2c[i].t = "init_reply" => SS!Transmittable(s2c[i].seq1, 1) /\ SS!Transmittable(s2c[i].seq2, 1))
                          /\ (s2c[i].t = "ping" => SS!Transmittable(s2c[i].seq1, 2) /\ SS!Transmittable(s2c[i].seq2, 1))
StartsAgreeWhenQuiet == (c2s = <<>> /\ s2c = <<>> /\ cstate = "ready") => (cstart = sstart /\ ccounter = scounter /\ spending = -1)
=============================================================================
