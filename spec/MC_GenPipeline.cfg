CONSTANT TREE <- MCTree
SPECIFICATION Spec
CHECK_DEADLOCK FALSE
INVARIANT OrderIndependent
INVARIANT Complete
INVARIANT Emit
