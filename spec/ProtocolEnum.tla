---------------------------- MODULE ProtocolEnum ----------------------------
(* Protocol enums (property C14).  ENUMS maps an enum name to its declaration, a set of        *)
(* [name, ord] records; integers are limb pairs (EoNumbers convention) so that 2^31 and 253^4    *)
(* can be named.  The state is what a program can observe: the declared member tables (which   *)
(* must never change) and the history of constructions, each with the identity of its result.  *)
EXTENDS Integers, Sequences, FiniteSets
CONSTANTS ENUMS
VARIABLES members,    \* enum name -> set of [name, ord]: the live member table
          history,    \* sequence of construction results
          fresh       \* identities handed out so far to unrecognized instances
vars == <<members, history, fresh>>

Decl(e, n) == {m \in members[e] : m.ord = n}
Init == members = ENUMS /\ history = <<>> /\ fresh = 0
\* Construct(e, n): a declared ordinal yields THE member (identity = its name), anything else a new instance
Construct(e, n) ==
  /\ IF Decl(e, n) # {}
     THEN LET m == CHOOSE m \in Decl(e, n) : TRUE
          IN  /\ history' = Append(history, [cls |-> e, n |-> n, kind |-> "member", name |-> m.name, ident |-> <<"member", e, m.name>>])
              /\ UNCHANGED fresh
     ELSE /\ history' = Append(history, [cls |-> e, n |-> n, kind |-> "unrecognized", name |-> "Unrecognized", ident |-> <<"fresh", fresh + 1>>])
          /\ fresh' = fresh + 1
  /\ UNCHANGED members          \* constructing never changes the declared members

\* ---- properties ----
MembersNeverChange == members = ENUMS
SameMemberSameObject == \A i, j \in 1..Len(history) :
   (history[i].kind = "member" /\ history[j].kind = "member" /\ history[i].cls = history[j].cls /\ history[i].n = history[j].n)
      => history[i].ident = history[j].ident
ResultIsOfItsEnum == \A i \in 1..Len(history) : history[i].cls \in DOMAIN ENUMS
UnrecognizedOnlyWhenUndeclared == \A i \in 1..Len(history) :
   (history[i].kind = "unrecognized") <=> (\A m \in ENUMS[history[i].cls] : m.ord # history[i].n)
=============================================================================
