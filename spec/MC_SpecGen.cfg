CONSTANTS
  TYPES <- LibTypes
  MAXINSTR = 2
  MAXDEPTH = 2
  VIOLATING = TRUE
  CORE = FALSE
  EXTENDED = FALSE
SPECIFICATION Spec
CHECK_DEADLOCK FALSE
INVARIANT Emit
