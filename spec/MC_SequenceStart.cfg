CONSTANT PINGSTEP = 6
SPECIFICATION Spec
CHECK_DEADLOCK FALSE
INVARIANT SentIsReconstructible
INVARIANT InRange
