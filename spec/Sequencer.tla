---------------------------- MODULE Sequencer ----------------------------
(* PacketSequencer (property C13): one action per public call.                               *)
(* A sequence start is a record [kind, value]; the kind (simple / account / init / ping) is    *)
(* carried only so that the model can say explicitly that it never matters.                   *)
EXTENDS Integers, Sequences
VARIABLES start,     \* the sequence start in force
          counter,   \* 0..9
          served,    \* number of next_sequence calls so far (ghost: what the peer also counts)
          last       \* value returned by the latest call, or -1
vars == <<start, counter, served, last>>

Init(s0) == start = s0 /\ counter = 0 /\ served = 0 /\ last = -1
\* SequenceStart is an abstract class: a user-defined start may be unable to give its value yet (kind "pending"); a request made
\* then raises, returns no number and therefore is no request - "the n-th number RETURNED" does not count it
Unreadable(s) == s.kind = "pending"
FailedRequest == Unreadable(start) /\ UNCHANGED <<start, counter, served, last>>
Resolve(v) == Unreadable(start) /\ start' = [kind |-> "resolved", value |-> v] /\ UNCHANGED <<counter, served, last>>
NextSequence == /\ ~Unreadable(start)
                /\ last' = start.value + counter
                /\ counter' = (counter + 1) % 10
                /\ served' = served + 1
                /\ UNCHANGED start
SetStart(s) == /\ start' = s
               /\ UNCHANGED <<counter, served, last>>     \* never resets, skips or repeats the counter

\* ---- properties ----
TypeOK == counter \in 0..9 /\ served >= 0
CounterTracksServed == counter = served % 10
\* the n-th number returned (n = served before the call) is start-in-force + n mod 10
Lockstep == [][served' = served + 1 => last' = start.value + (served % 10)]_vars
UpdateKeepsCounter == [][served' = served => counter' = counter]_vars
=============================================================================
