---------------------------- MODULE MC_EoNumbers ----------------------------
(* Bounded instance for C07 at model level: every n in 0..NBLK*BLK-1 is one state.  The two-  *)
(* level shape (blk chosen in Init, i stepped by Next) lets the workers share the range.      *)
EXTENDS EoNumbers, TLC
CONSTANTS NBLK, BLK
VARIABLES blk, i
vars == <<blk, i>>
n == blk * BLK + i

Init == blk \in 0..(NBLK - 1) /\ i = 0
Next == i < BLK - 1 /\ i' = i + 1 /\ UNCHANGED blk
Spec == Init /\ [][Next]_vars

InvRoundTrip == RoundTripInt(n)
InvWireSafe  == NoZeroNoFF(EncodeInt(n))
InvPrefix    == PrefixInt(n)
\* the limb formulation means the same thing
InvLimbAgree == /\ Encode(L(n)) = EncodeInt(n)
                /\ Decode(EncodeInt(n)) = L(n)
                /\ RoundTrip(L(n)) /\ Prefix(L(n))
\* injectivity on the explored range follows from InvRoundTrip (two numbers with one encoding
\* would decode to one value); stated for the record:
InvInRange   == InRange(L(n))
=============================================================================
