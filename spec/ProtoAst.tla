---------------------------- MODULE ProtoAst ----------------------------
(* The eo-protocol XML as data (DESIGN.md Appendix A/B).  TYPES is the type table of a spec tree: *)
(*   name |-> [kind |-> "enum", utype, values |-> <<[name, ord]>>]                                *)
(*   name |-> [kind |-> "struct", code |-> <<instruction>>]                                        *)
(* An instruction is a record with every attribute present (absent ones carry sentinels):          *)
(*   tag    "field" "array" "length" "dummy" "switch" "chunked" "break"                              *)
(*   name   "" when unnamed          type/over  base type name and ":"-override ("" if none)         *)
(*   len    [k |-> "none" | "lit" | "ref", n, ref]   padded optional delimited trailing  BOOLEAN     *)
(*   hard   "None" or the hardcoded constant as a typed value (limb pair / BOOLEAN / Char sequence)  *)
(*   offset integer     body  <<instruction>> (chunked)                                             *)
(*   field  switch field name, cases <<[default, val |-> [k |-> "num"|"name", n, name], cname, body]>> *)
(* Values: EO numbers are limb pairs, strings Char sequences, blobs byte sequences, None = "None",  *)
(* objects are records keyed by field name plus _t (class tag).                                     *)
EXTENDS EoNumbers, EoStrings, Cp1252, TLC
CONSTANT TYPES

NoneV == "None"
\* TLC has no equality across value kinds (a tuple = "None" is an error), so None-ness is tested on the printed form
IsNone(v) == ToString(v) = ToString(NoneV)
INTS == {"byte", "char", "short", "three", "int"}
IsInt(t) == t \in INTS
IsStr(t) == t \in {"string", "encoded_string"}
IsEnum(t) == t \in DOMAIN TYPES /\ TYPES[t].kind = "enum"
IsStruct(t) == t \in DOMAIN TYPES /\ TYPES[t].kind = "struct"
\* the integer type that carries a bool / enum / integer field on the wire
WireInt(t, over) == IF over # "" THEN over ELSE IF t = "bool" THEN "char" ELSE IF IsEnum(t) THEN TYPES[t].utype ELSE t
IsNumeric(t) == IsInt(t) \/ t = "bool" \/ IsEnum(t)
\* largest value a length field of integer type t can carry
MaxOf(t) == LSub(Limit(t), <<0, 1>>)

\* ---- sizes (-1 = no fixed size), following the reference rules ----
RECURSIVE CodeFixedSize(_)
TypeFixedSize(t, over, len) ==
  IF IsNumeric(t) THEN Width(WireInt(t, over))
  ELSE IF IsStr(t) THEN (IF len.k = "lit" THEN len.n ELSE -1)
  ELSE IF t = "blob" THEN -1
  ELSE CodeFixedSize(TYPES[t].code)
InstrFixedSize(i) ==
  CASE i.tag = "field"  -> IF i.optional THEN -1 ELSE TypeFixedSize(i.type, i.over, i.len)
    [] i.tag = "array"  -> LET es == TypeFixedSize(i.type, i.over, [k |-> "none", n |-> 0, ref |-> ""])
                           IN  IF i.len.k # "lit" \/ es = -1 \/ i.optional \/ i.delimited THEN -1 ELSE i.len.n * es
    [] i.tag = "dummy"  -> TypeFixedSize(i.type, i.over, i.len)
    [] i.tag = "length" -> 0
    [] i.tag = "break"  -> 0
    [] OTHER -> -1                       \* chunked, switch: never fixed-size
CodeFixedSize(code) ==
  IF code = <<>> THEN 0
  ELSE LET a == InstrFixedSize(Head(code))
           b == CodeFixedSize(Tail(code))
       IN  IF a = -1 \/ b = -1 THEN -1 ELSE a + b

NoLen == [k |-> "none", n |-> 0, ref |-> ""]
\* class tag of the case-data class of a switch case inside class cls
CaseClass(cls, sw, c) == cls \o "." \o c.cname
=============================================================================
