CONSTANTS
  INPUTS <- MCInputs
  MULT = 3
SPECIFICATION Spec
CHECK_DEADLOCK FALSE
INVARIANT AlgoCorrect
