---------------------------- MODULE ProtoObject ----------------------------
(* Generated protocol objects as immutable snapshots (property C19).  An instance is an object      *)
(* record (ProtoAst conventions) together with the caller-owned lists it was built from.  Targets   *)
(* lists what a program can try to change through the public interface:                             *)
(*   setattr       assign to a field, to byte_size, or to a field of nested case data / struct       *)
(*   mutate_field  change the array obtained from a getter in place (append / clear / item assign)   *)
(*   mutate_arg    change the caller's own list after construction (append / clear / reverse)        *)
(*   serialize     observe the bytes                                                                *)
(*   other         obtain ANOTHER instance of the same class (deserialized from this instance's bytes   *)
(*                 with one byte more / one byte less, or constructed from the same arguments): an        *)
(*                 instance shares no state with its siblings                                             *)
(* Apply is the model of what each action does: setattr and mutate_field are refused                 *)
(* (AttributeError / a tuple has no such method) and NOTHING changes the instance.                   *)
EXTENDS ProtoAst
Act(op, path, name, how) == [op |-> op, path |-> path, name |-> name, how |-> how]
RECURSIVE Targets(_, _, _)
InstrTargets(i, o, path) ==
  CASE i.tag = "field" /\ i.name # "" /\ i.name \in DOMAIN o ->
         <<Act("setattr", path, i.name, "")>>
         \o (IF IsStruct(i.type) /\ ~IsNone(o[i.name]) THEN Targets(TYPES[i.type].code, o[i.name], Append(path, i.name)) ELSE <<>>)
    [] i.tag = "array" /\ i.name \in DOMAIN o ->
         <<Act("setattr", path, i.name, "")>>
         \o (IF IsNone(o[i.name]) THEN <<>>
             ELSE <<Act("mutate_field", path, i.name, "append"), Act("mutate_field", path, i.name, "clear"), Act("mutate_field", path, i.name, "setitem")>>
                  \o (IF path = <<>> THEN <<Act("mutate_arg", path, i.name, "append"), Act("mutate_arg", path, i.name, "clear"), Act("mutate_arg", path, i.name, "reverse")>> ELSE <<>>))
    [] i.tag = "chunked" -> Targets(i.body, o, path)
    [] i.tag = "switch" /\ (i.field \o "_data") \in DOMAIN o ->
         <<Act("setattr", path, i.field \o "_data", "")>>
         \o (LET d == o[i.field \o "_data"]
             IN  IF IsNone(d) THEN <<>>
                 ELSE LET cs == {x \in 1..Len(i.cases) : CaseClass(o._t, i, i.cases[x]) = d._t}
                      IN  IF cs = {} THEN <<>> ELSE Targets(i.cases[CHOOSE x \in cs : TRUE].body, d, Append(path, i.field \o "_data")))
    [] OTHER -> <<>>
Targets(code, o, path) ==
  LET RECURSIVE Cat(_)
      Cat(k) == IF k > Len(code) THEN <<>> ELSE InstrTargets(code[k], o, path) \o Cat(k + 1)
  IN  <<Act("setattr", path, "byte_size", "")>> \o Cat(1)
\* actions that do not address a field of the instance at all
\* (clobber_source: the caller overwrites the buffer a deserialized instance was read from - the instance holds values, not views)
Others == <<Act("serialize", <<>>, "", ""), Act("other", <<>>, "", "longer"), Act("other", <<>>, "", "shorter"), Act("other", <<>>, "", "construct"),
            Act("other", <<>>, "", "clobber_source")>>

\* outcome of an action on an instance: the instance itself is never different afterwards
Outcome(a) == CASE a.op = "setattr" -> "AttributeError"
                [] a.op = "mutate_field" -> "refused"        \* a tuple has no append/clear and no item assignment
                [] OTHER -> ""
=============================================================================
