---------------------------- MODULE Cp1252 ----------------------------
(* Strings as the reader and writer see them (DESIGN.md 3.2).  A string is a sequence of Char:  *)
(* a windows-1252 byte value 0..255 that the code page defines, or UNENC = 256 standing for     *)
(* "any character windows-1252 cannot encode".  Encoding uses 'replace' ('?' = 63), decoding    *)
(* uses 'replace' (the five undefined bytes become an unencodable character).  One Char is one  *)
(* byte, so Len of a string is its byte length.                                                 *)
EXTENDS Integers, Sequences
UNDEFINED == {129, 141, 143, 144, 157}
UNENC == 256
Char == (0..256) \ UNDEFINED
ToByte(c) == IF c = UNENC THEN 63 ELSE c
FromByte(b) == IF b \in UNDEFINED THEN UNENC ELSE b
StrToBytes(s) == [i \in 1..Len(s) |-> ToByte(s[i])]
BytesToStr(bs) == [i \in 1..Len(bs) |-> FromByte(bs[i])]
\* what a string becomes after one trip through the wire
Image(s) == BytesToStr(StrToBytes(s))
=============================================================================
