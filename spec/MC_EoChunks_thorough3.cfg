CONSTANTS
  NCHUNKS = 3
  NFIELDS = 1
  EMIT = FALSE
  ALLPLANS = FALSE
  SMALL = TRUE
SPECIFICATION Spec
CHECK_DEADLOCK FALSE
INVARIANT InvNoBreakInChunk
INVARIANT InvDone
