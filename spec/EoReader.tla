---------------------------- MODULE EoReader ----------------------------
(* EoReader (properties C05, C04, C06): the documented chunked-reading model.                  *)
(* A reader is a record [data, pos, chunked, cs]: pos = number of bytes consumed (0-based       *)
(* position), cs = start of the current chunk.  The break of the current chunk is DERIVED from  *)
(* cs (the implementation caches it; the cache is not part of the model, so a stale cache is    *)
(* exactly what conformance catches).  Functional core + state machine over a sequence of       *)
(* readers (a slice adds a reader).  EO numbers are limb pairs.                                 *)
EXTENDS EoNumbers, EoStrings, Cp1252

NewReader(data) == [data |-> data, pos |-> 0, chunked |-> FALSE, cs |-> 0]
Size(r) == Len(r.data)
\* 0-based index of the first break at or after the chunk start, or the data length
NextBreak(r) == LET i == FirstAt(r.data, 255, r.cs + 1) IN IF i = 0 THEN Size(r) ELSE i - 1
Remaining(r) == IF r.chunked THEN NextBreak(r) - Min(r.pos, NextBreak(r)) ELSE Size(r) - r.pos

None == -9999                    \* "argument omitted" (slice); any other negative value is a real negative argument
Res(r, ret, exc) == [r |-> r, ret |-> ret, exc |-> exc]
\* read up to n bytes (n >= 0), bounded by the chunk / the data
ReadBytes(r, n) == LET k == Min(n, Remaining(r))
                   IN  [r |-> [r EXCEPT !.pos = r.pos + k], bytes |-> SubSeq(r.data, r.pos + 1, r.pos + k)]
CutPadding(bs) == LET i == FirstAt(bs, 255, 1) IN IF i = 0 THEN bs ELSE SubSeq(bs, 1, i - 1)

RGetByte(r) == IF Remaining(r) > 0 THEN Res([r EXCEPT !.pos = r.pos + 1], r.data[r.pos + 1], "") ELSE Res(r, 0, "")
RGetBytes(r, n) == LET x == ReadBytes(r, n) IN Res(x.r, x.bytes, "")
RGetNum(r, t) == LET x == ReadBytes(r, Width(t)) IN Res(x.r, Decode(x.bytes), "")
RGetString(r) == LET x == ReadBytes(r, Remaining(r)) IN Res(x.r, BytesToStr(x.bytes), "")
RGetFixedString(r, n, padded) ==
  IF n < 0 THEN Res(r, <<>>, "ValueError")
  ELSE LET x == ReadBytes(r, n) IN Res(x.r, BytesToStr(IF padded THEN CutPadding(x.bytes) ELSE x.bytes), "")
RGetEncodedString(r) == LET x == ReadBytes(r, Remaining(r)) IN Res(x.r, BytesToStr(DecodeString(x.bytes)), "")
RGetFixedEncodedString(r, n, padded) ==
  IF n < 0 THEN Res(r, <<>>, "ValueError")
  ELSE LET x == ReadBytes(r, n)
           d == DecodeString(x.bytes)
       IN  Res(x.r, BytesToStr(IF padded THEN CutPadding(d) ELSE d), "")
RSetChunked(r, b) == Res([r EXCEPT !.chunked = b], 0, "")
\* just past the break of the current chunk, or to the end of the data
RNextChunk(r) == IF ~r.chunked THEN Res(r, 0, "RuntimeError")
                 ELSE LET nb == NextBreak(r)
                          p == IF nb < Size(r) THEN nb + 1 ELSE nb
                      IN  Res([r EXCEPT !.pos = p, !.cs = p], 0, "")
\* the data of the slice (index, length >= 0 or None)
SliceData(r, index, length) ==
  LET idx == IF index = None THEN r.pos ELSE index
      ln  == IF length = None THEN Max(0, Size(r) - idx) ELSE length
      b   == Max(0, Min(Size(r), idx))
      e   == b + Min(Size(r) - b, ln)
  IN  SubSeq(r.data, b + 1, e)
SliceRefused(index, length) == (index # None /\ index < 0) \/ (length # None /\ length < 0)

\* one call described by a record c = [op, ...]; slice is handled by the state machine (it adds a reader)
RApply(r, c) ==
  CASE c.op = "get_byte"   -> RGetByte(r)
    [] c.op = "get_bytes"  -> RGetBytes(r, c.n)
    [] c.op = "get_char"   -> RGetNum(r, "char")
    [] c.op = "get_short"  -> RGetNum(r, "short")
    [] c.op = "get_three"  -> RGetNum(r, "three")
    [] c.op = "get_int"    -> RGetNum(r, "int")
    [] c.op = "get_string" -> RGetString(r)
    [] c.op = "get_fixed_string" -> RGetFixedString(r, c.n, c.padded)
    [] c.op = "get_encoded_string" -> RGetEncodedString(r)
    [] c.op = "get_fixed_encoded_string" -> RGetFixedEncodedString(r, c.n, c.padded)
    [] c.op = "set_chunked" -> RSetChunked(r, c.b)
    [] c.op = "next_chunk" -> RNextChunk(r)

\* ---- the state machine: a sequence of live readers ----
VARIABLES readers, ret, exc
rvars == <<readers, ret, exc>>
RInit(data) == readers = <<NewReader(data)>> /\ ret = 0 /\ exc = ""
\* c.r = index of the reader the call is made on
Call(c) ==
  IF c.op = "slice"
  THEN IF SliceRefused(c.index, c.length)
       THEN readers' = readers /\ ret' = 0 /\ exc' = "ValueError"
       ELSE readers' = Append(readers, NewReader(SliceData(readers[c.r], c.index, c.length))) /\ ret' = Len(readers) + 1 /\ exc' = ""
  ELSE LET x == RApply(readers[c.r], c)
       IN  readers' = [readers EXCEPT ![c.r] = x.r] /\ ret' = x.ret /\ exc' = x.exc

\* the projection a program can observe of one reader
Proj(r) == [pos |-> r.pos, remaining |-> Remaining(r), chunked |-> r.chunked]

\* ---- C05 safety properties ----
InBounds == \A i \in 1..Len(readers) : /\ readers[i].pos >= 0 /\ readers[i].pos <= Size(readers[i])
                                       /\ Remaining(readers[i]) >= 0
\* operations on one reader never disturb another (slices are independent), and never change data
Independent(c) == \A i \in 1..Len(readers) : (i # c.r \/ c.op = "slice") => readers'[i] = readers[i]
DataImmutable == \A i \in 1..Len(readers) : readers'[i].data = readers[i].data
=============================================================================
