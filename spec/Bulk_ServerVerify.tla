---------------------------- MODULE Bulk_ServerVerify ----------------------------
(* C11 binding: rows from the real server_verification_hash.                                 *)
(*   exh   base; rows[i] = hash(base + i - 1)     (inputs named by the spec)                  *)
(*   rows  rows[i] = [challenge, hash]                                                        *)
EXTENDS ServerVerify, Sequences, TLC
Bad(blk) == CASE blk.kind = "exh"  -> {i \in 1..Len(blk.rows) : blk.rows[i] # Hash(blk.base + i - 1)}
              [] blk.kind = "rows" -> {i \in 1..Len(blk.rows) : blk.rows[i][2] # Hash(blk.rows[i][1])}
VARIABLES g, k
D == INSTANCE BulkDriver WITH BadRows <- Bad
Init == D!BInit
Next == D!BNext
Report == D!Report
=============================================================================
