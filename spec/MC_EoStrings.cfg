CONSTANTS
  MAXLEN = 5
INIT Init
NEXT Next
CHECK_DEADLOCK FALSE
INVARIANT InvLength
INVARIANT InvDecEnc
INVARIANT InvEncDec
INVARIANT InvShape
INVARIANT InvBreakSafe
