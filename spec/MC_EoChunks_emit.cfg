CONSTANTS
  NCHUNKS = 2
  NFIELDS = 2
  EMIT = TRUE
  ALLPLANS = FALSE
  SMALL = TRUE
SPECIFICATION Spec
CHECK_DEADLOCK FALSE
INVARIANT Emit
