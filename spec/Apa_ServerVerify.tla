---------------------------- MODULE Apa_ServerVerify ----------------------------
EXTENDS Integers
VARIABLE
  \* @type: Int;
  ch
S == INSTANCE ServerVerify
Init == ch \in Int /\ ch >= 0 /\ ch <= 11092110
InitBeyond == ch \in Int /\ ch >= 0 /\ ch <= 11092111
Next == UNCHANGED ch
ThmBound == S!Hash(ch) >= 0 /\ S!Hash(ch) < 253 * 253 * 253 * 253
=============================================================================
