---------------------------- MODULE ProtoSer ----------------------------
(* Small-step serializer for eo-protocol objects (DESIGN.md Appendix A) - properties C02, C15,    *)
(* C16.  State: the writer (EoWriter's record), a control stack of object frames, the status.      *)
(* One action per instruction step; struct-typed fields, array elements and switch case data      *)
(* push an object frame (saving the sanitisation mode) and Return pops it (restoring it); Raise    *)
(* unwinds frame by frame - the generated code's try/finally.                                      *)
(*                                                                                                *)
(* Values are chosen lazily at the step that consumes them (frame.given = Free: TLC explores       *)
(* all objects of the bounded domains DOMS) or taken from a given object (trace validation).       *)
EXTENDS ProtoAst
CONSTANT DOMS          \* [byte, char, short, three, int : sets of limb pairs; strs; alpha; counts; blobs; unrec; strict]
WR == INSTANCE EoWriter WITH wbytes <- <<>>, san <- FALSE, outcome <- ""

VARIABLES w,        \* [bytes, san]
          stack,    \* <<frame>>, innermost last
          status,   \* "running" | "raising" | "done"
          exc,      \* "" | "SerializationError" | "ValueError" | "Fault"
          fuel,     \* primitive writer calls left before an injected failure (-1: never)
          result    \* the finished root object (what was serialized), or "None"
svars == <<w, stack, status, exc, fuel, result>>

Free == [free |-> TRUE]
Given(o) == [free |-> FALSE, o |-> o]
IsFree(g) == g.free
\* frame: code (instructions still to run), saved (mode at entry), start (writer length at entry), obj (values so far),
\* given (Free or the object to serialize), inch (inside a chunked section of this object), missing (reached a missing
\* optional), lens (length field name -> count), dest (where the finished object goes in the parent), cls (class tag)
NewFrame(code, cls, given, inch, dest) ==
  [code |-> code, saved |-> w.san, start |-> Len(w.bytes), obj |-> [_t |-> cls], given |-> given, inch |-> inch,
   missing |-> FALSE, lens |-> [x \in {} |-> 0], dest |-> dest, cls |-> cls]
Top == stack[Len(stack)]
WithTop(f) == [stack EXCEPT ![Len(stack)] = f]
Bind(f, name, v) == [f EXCEPT !.obj = (name :> v) @@ f.obj]
Rest(f) == [f EXCEPT !.code = Tail(f.code)]

SInit(code, cls, given, san0, fuel0) ==
  /\ w = [bytes |-> <<>>, san |-> san0, log |-> <<>>]       \* log: the sanitisation mode at every primitive writer call so far
  /\ stack = <<[code |-> code, saved |-> san0, start |-> 0, obj |-> [_t |-> cls], given |-> given, inch |-> FALSE,
                missing |-> FALSE, lens |-> [x \in {} |-> 0], dest |-> [k |-> "root"], cls |-> cls]>>
  /\ status = "running" /\ exc = "" /\ fuel = fuel0 /\ result = NoneV

\* ---- value domains ----
IntDom(t) == DOMS[t]
EnumDom(t) == {v.ord : v \in {TYPES[t].values[i] : i \in 1..Len(TYPES[t].values)}} \cup {DOMS.unrec}
StringsOfLen(n) == [1..n -> DOMS.alpha]
ScalarDom(i) ==          \* domain of a field / element of instruction i, when no length reference is involved
  IF IsInt(i.type) THEN IntDom(i.type)
  ELSE IF i.type = "bool" THEN BOOLEAN
  ELSE IF IsEnum(i.type) THEN {v \in EnumDom(i.type) : LLess(v, Limit(WireInt(i.type, i.over)))}
  ELSE IF i.type = "blob" THEN DOMS.blobs
  ELSE IF IsStr(i.type) THEN
         (IF i.tag = "array" \/ i.len.k = "none" THEN DOMS.strs
          ELSE IF i.len.k = "lit" THEN (IF i.padded THEN UNION {StringsOfLen(n) : n \in 0..i.len.n} ELSE StringsOfLen(i.len.n))
          ELSE {})
  ELSE {}
HasGiven(f, name) == ~IsFree(f.given) /\ name \in DOMAIN f.given.o
\* the candidates for field `name`: the given value, or the whole domain
Pick(f, name, dom) == IF IsFree(f.given) THEN dom ELSE IF name \in DOMAIN f.given.o THEN {f.given.o[name]} ELSE {NoneV}

\* ---- primitive writes (each consumes fuel) ----
\* r = [w, exc]; a write that is refused or an injected fault starts raising
AfterWrite(r, f) ==
  LET logged == Append(w.log, w.san) IN        \* the call is made (or attempted) in the current mode
  IF fuel = 0 THEN /\ status' = "raising" /\ exc' = "Fault" /\ w' = [w EXCEPT !.log = logged] /\ UNCHANGED result /\ stack' = WithTop(f) /\ fuel' = -1
  ELSE /\ fuel' = (IF fuel > 0 THEN fuel - 1 ELSE fuel)
       /\ IF r.exc = "" THEN w' = [r.w EXCEPT !.log = logged] /\ stack' = WithTop(f) /\ UNCHANGED <<status, exc, result>>
          ELSE status' = "raising" /\ exc' = r.exc /\ stack' = WithTop(f) /\ w' = [w EXCEPT !.log = logged] /\ UNCHANGED result
Raise(e, f) == status' = "raising" /\ exc' = e /\ stack' = WithTop(f) /\ UNCHANGED <<w, fuel, result>>
Skip(f) == stack' = WithTop(f) /\ UNCHANGED <<w, status, exc, fuel, result>>

NumCall(t, n) == IF t = "byte" THEN [op |-> "add_byte", n |-> n] ELSE [op |-> "add_" \o t, n |-> n]
\* the writer call for a basic value v of instruction i (lenArg = -1: unsized)
BasicCall(i, v, lenArg) ==
  IF IsInt(i.type) THEN NumCall(i.type, v)
  ELSE IF i.type = "bool" THEN NumCall(WireInt(i.type, i.over), IF v THEN <<0, 1>> ELSE <<0, 0>>)
  ELSE IF IsEnum(i.type) THEN NumCall(WireInt(i.type, i.over), v)
  ELSE IF i.type = "blob" THEN [op |-> "add_bytes", bytes |-> v]
  ELSE IF i.type = "string" THEN (IF lenArg = -1 THEN [op |-> "add_string", s |-> v]
                                  ELSE [op |-> "add_fixed_string", s |-> v, len |-> lenArg, padded |-> i.padded])
  ELSE (IF lenArg = -1 THEN [op |-> "add_encoded_string", s |-> v]
        ELSE [op |-> "add_fixed_encoded_string", s |-> v, len |-> lenArg, padded |-> i.padded])

\* ---- length rules ----
\* the <length> instruction named ref is remembered in f.lens as [n, type, offset]
LenBound(l) == LAdd(MaxOf(l.type), L(l.offset))
\* violated length declaration of a sized value (string or array) of size sz
LengthViolated(i, f, sz) ==
  IF i.len.k = "lit" THEN (IF i.tag = "field" /\ i.padded THEN sz > i.len.n ELSE sz # i.len.n)
  ELSE IF i.len.k = "ref" THEN LLess(LenBound(f.lens[i.len.ref]), L(sz))
  ELSE FALSE

\* ---- steps ----
\* the value of a named, non-hardcoded field or array: candidates depend on a referenced length in Free mode
FieldCands(i, f) ==
  IF i.tag = "field" /\ i.len.k = "ref" /\ IsFree(f.given)
  THEN (IF f.lens[i.len.ref].none THEN {NoneV} ELSE StringsOfLen(f.lens[i.len.ref].n))      \* the constructor derives the length from the value
  ELSE Pick(f, i.name, IF IsStruct(i.type) THEN {"obj"} ELSE ScalarDom(i))       \* "obj": a struct value, chosen field by field in its own frame
\* may the value be None in Free mode?  (a length-referenced value is None exactly when its length is)
MayBeNone(i, f) == i.optional /\ (~IsFree(f.given) \/ i.len.k # "ref")

\* write one basic or struct value v described by i; afterF = the frame to continue with
WriteValue(i, v, lenArg, afterF, dest) ==
  IF IsStruct(i.type)
  THEN \* push an object frame; its values are v's (given) or free
       /\ stack' = Append(WithTop(afterF), NewFrame(TYPES[i.type].code, i.type, v, FALSE, dest))          \* v: Free or Given(object)
       /\ UNCHANGED <<w, status, exc, fuel, result>>
  ELSE AfterWrite(WR!WApply(w, BasicCall(i, v, lenArg)), afterF)

SizeOf(v) == Len(v)

\* one named, non-hardcoded field with candidate value v (possibly None)
FieldWith(i, f, v) ==
  LET f1 == Rest(f)
      fb == Bind(f1, i.name, v)
      miss == f.missing \/ IsNone(v)
  IN  IF i.optional /\ miss THEN Skip([fb EXCEPT !.missing = TRUE])
      ELSE IF IsNone(v) THEN Raise("SerializationError", fb)
      ELSE IF IsStr(i.type) /\ LengthViolated(i, f, SizeOf(v)) THEN Raise("SerializationError", fb)
      ELSE LET lenArg == IF ~IsStr(i.type) THEN -1 ELSE IF i.len.k = "lit" THEN i.len.n
                         ELSE IF i.len.k = "ref" THEN f.lens[i.len.ref].n ELSE -1
           IN  IF IsStruct(i.type)
               THEN WriteValue(i, IF IsFree(f.given) THEN Free ELSE Given(v), lenArg, f1, [k |-> "field", name |-> i.name])     \* bound on Return
               ELSE WriteValue(i, v, lenArg, fb, [k |-> "none"])
StepField(i, f) ==
  IF i.name = "" \/ ~IsNone(i.hard)
  THEN \* hardcoded: the constant is written whatever was passed; a named one is what the object holds
       LET f2 == IF i.name = "" THEN Rest(f) ELSE Bind(Rest(f), i.name, i.hard)
       IN  AfterWrite(WR!WApply(w, BasicCall(i, i.hard, IF i.len.k = "lit" THEN i.len.n ELSE -1)), f2)
  ELSE \/ (/\ ~(DOMS.strict /\ i.optional /\ f.missing)                                                    \* strict: nothing present behind a missing optional
            /\ ~(IsFree(f.given) /\ IsStruct(i.type) /\ i.optional /\ f.missing)      \* (a struct value is only chosen where it is also written)
            /\ \E v \in FieldCands(i, f) : FieldWith(i, f, v))
       \/ (IsFree(f.given) /\ MayBeNone(i, f) /\ FieldWith(i, f, NoneV))      \* (None kept out of the candidate set: TLC sets are homogeneous)

\* <length>: the count is chosen here (Free) or derived from the referencing value (given); the later field honours it
RefInstr(code, name) ==      \* the field/array (possibly inside <chunked>) whose length attribute is `name`
  LET RECURSIVE Find(_)
      Find(c) == IF c = <<>> THEN NoneV
                 ELSE LET h == Head(c)
                      IN  IF h.tag \in {"field", "array"} /\ h.len.k = "ref" /\ h.len.ref = name THEN h
                          ELSE IF h.tag = "chunked" THEN (LET r == Find(h.body) IN IF ~IsNone(r) THEN r ELSE Find(Tail(c)))
                          ELSE Find(Tail(c))
  IN  Find(code)
GivenCount(f, refI) == IF IsNone(refI) THEN NoneV
                       ELSE IF refI.name \in DOMAIN f.given.o /\ ~IsNone(f.given.o[refI.name]) THEN Len(f.given.o[refI.name]) ELSE NoneV
LengthWith(i, f, n) ==       \* n: the referenced count, or None
  LET f1 == Rest(f)
      miss == f.missing \/ IsNone(n)
      fl == [f1 EXCEPT !.lens = (i.name :> [n |-> (IF IsNone(n) THEN 0 ELSE n), none |-> IsNone(n), type |-> i.type, offset |-> i.offset]) @@ f1.lens]
  IN  IF i.optional /\ miss THEN Skip([fl EXCEPT !.missing = TRUE])
      ELSE IF IsNone(n) THEN Raise("SerializationError", fl)       \* a required length whose referencing value is None
      ELSE AfterWrite(WR!WApply(w, NumCall(i.type, L(n - i.offset))), fl)
StepLength(i, f) ==
  IF IsFree(f.given)
  THEN \/ (~(DOMS.strict /\ i.optional /\ f.missing) /\ \E n \in {m \in DOMS.counts : m - i.offset >= 0 /\ LLess(L(m - i.offset), Limit(i.type))} : LengthWith(i, f, n))
       \/ (i.optional /\ LengthWith(i, f, NoneV))
  ELSE LengthWith(i, f, GivenCount(f, RefInstr(Tail(f.code), i.name)))

\* <array>: decide the value/count, then splice one "welem" step per element (and delimiters)
ElemSteps(i, n) ==
  LET RECURSIVE E(_)
      E(k) == IF k > n THEN <<>>
              ELSE (IF i.delimited /\ ~i.trailing /\ k > 1 THEN <<[tag |-> "wdelim"]>> ELSE <<>>)
                   \o <<[tag |-> "welem", arr |-> i, idx |-> k]>>
                   \o (IF i.delimited /\ i.trailing THEN <<[tag |-> "wdelim"]>> ELSE <<>>)
                   \o E(k + 1)
  IN  E(1)
StepArray(i, f) ==
  LET f1 == Rest(f) IN
  IF IsFree(f.given)
  THEN LET absentOnly == i.len.k = "ref" /\ f.lens[i.len.ref].none
           mayAbsent == i.optional /\ (i.len.k # "ref" \/ absentOnly)
           counts == IF i.len.k = "ref" THEN {f.lens[i.len.ref].n} ELSE IF i.len.k = "lit" THEN {i.len.n} ELSE DOMS.counts
       IN  \/ (mayAbsent /\ Skip([Bind(f1, i.name, NoneV) EXCEPT !.missing = TRUE]))
           \/ (~absentOnly /\ ~(DOMS.strict /\ i.optional /\ f.missing) /\ \E n \in counts :
                  IF i.optional /\ f.missing THEN Skip(Bind(f1, i.name, <<>>))          \* present but behind a missing optional: not written
                  ELSE Skip([Bind(f1, i.name, <<>>) EXCEPT !.code = ElemSteps(i, n) \o f1.code]))
  ELSE LET v == IF i.name \in DOMAIN f.given.o THEN f.given.o[i.name] ELSE NoneV
           fb == Bind(f1, i.name, IF IsNone(v) THEN NoneV ELSE <<>>)
           miss == f.missing \/ IsNone(v)
       IN  IF i.optional /\ miss THEN Skip([Bind(f1, i.name, v) EXCEPT !.missing = TRUE])
           ELSE IF IsNone(v) THEN Raise("SerializationError", fb)
           ELSE IF LengthViolated(i, f, Len(v)) THEN Raise("SerializationError", fb)
           ELSE LET n == IF i.len.k = "lit" THEN i.len.n ELSE IF i.len.k = "ref" THEN f.lens[i.len.ref].n ELSE Len(v)
                IN  Skip([fb EXCEPT !.code = ElemSteps(i, n) \o f1.code])
AppendElem(f, name, v) == [f EXCEPT !.obj = (name :> Append(f.obj[name], v)) @@ f.obj]
StepElem(e, f) ==
  LET i == e.arr
      f1 == Rest(f)
      ei == [i EXCEPT !.tag = "elem", !.len = NoLen]
      cands == IF IsFree(f.given) THEN (IF IsStruct(i.type) THEN {"obj"} ELSE ScalarDom(ei))
               ELSE {f.given.o[i.name][e.idx]}
  IN  \E v \in cands :
        IF IsStruct(i.type) THEN WriteValue(ei, IF IsFree(f.given) THEN Free ELSE Given(v), -1, f1, [k |-> "elem", name |-> i.name])
        ELSE WriteValue(ei, v, -1, AppendElem(f1, i.name, v), [k |-> "none"])

StepDummy(i, f) ==
  IF Len(w.bytes) = f.start THEN AfterWrite(WR!WApply(w, BasicCall(i, i.hard, -1)), Rest(f)) ELSE Skip(Rest(f))

\* the case selected by value v: first value case that matches, else the default, else none (0)
CaseMatches(c, t, v) == ~c.default /\ ~IsNone(v) /\
                        (IF c.val.k = "num" THEN c.val.n = v
                         ELSE \E m \in {TYPES[t].values[x] : x \in 1..Len(TYPES[t].values)} : m.name = c.val.name /\ m.ord = v)
SelectCase(cases, t, v) ==
  LET hit == {x \in 1..Len(cases) : CaseMatches(cases[x], t, v)}
      dfl == {x \in 1..Len(cases) : cases[x].default}
  IN  IF hit # {} THEN CHOOSE x \in hit : \A y \in hit : x <= y
      ELSE IF dfl # {} THEN CHOOSE x \in dfl : TRUE ELSE 0
StepSwitch(i, f) ==
  LET f1 == Rest(f)
      dname == i.field \o "_data"
      sel == SelectCase(i.cases, i.ftype, f.obj[i.field])
      gd == IF HasGiven(f, dname) THEN f.given.o[dname] ELSE NoneV
  IN  IF sel = 0 THEN Skip(Bind(f1, dname, gd))                                  \* no case: nothing written (reference behaviour)
      ELSE LET c == i.cases[sel] IN
           IF c.body = <<>>
           THEN IF ~IsNone(gd) THEN Raise("SerializationError", Bind(f1, dname, gd)) ELSE Skip(Bind(f1, dname, NoneV))
           ELSE IF ~IsFree(f.given) /\ (IF IsNone(gd) THEN TRUE ELSE gd._t # CaseClass(f.cls, i, c))
                THEN Raise("SerializationError", Bind(f1, dname, gd))
                ELSE /\ stack' = Append(WithTop(f1), NewFrame(c.body, CaseClass(f.cls, i, c), IF IsFree(f.given) THEN Free ELSE Given(gd),
                                                              f.inch, [k |-> "field", name |-> dname]))
                     /\ UNCHANGED <<w, status, exc, fuel, result>>

StepChunked(i, f) ==
  IF f.inch THEN Skip([f EXCEPT !.code = i.body \o Tail(f.code)])
  ELSE /\ w' = [w EXCEPT !.san = TRUE]
       /\ stack' = WithTop([f EXCEPT !.code = i.body \o <<[tag |-> "exit_chunked"]>> \o Tail(f.code), !.inch = TRUE])
       /\ UNCHANGED <<status, exc, fuel, result>>
StepExitChunked(f) == /\ w' = [w EXCEPT !.san = FALSE] /\ stack' = WithTop([Rest(f) EXCEPT !.inch = FALSE])
                      /\ UNCHANGED <<status, exc, fuel, result>>
StepBreak(f) == AfterWrite(WR!WApply(w, [op |-> "add_byte", n |-> <<0, 255>>]), [Rest(f) EXCEPT !.missing = FALSE])

\* Return: the object frame is finished; the mode it found is put back; the object goes to its place in the parent
Return ==
  /\ status = "running" /\ stack # <<>> /\ Top.code = <<>>
  /\ w' = [w EXCEPT !.san = Top.saved]
  /\ IF Len(stack) = 1
     THEN stack' = <<>> /\ status' = "done" /\ result' = Top.obj /\ UNCHANGED <<exc, fuel>>
     ELSE LET p == stack[Len(stack) - 1]
              d == Top.dest
              p2 == IF d.k = "field" THEN Bind(p, d.name, Top.obj) ELSE AppendElem(p, d.name, Top.obj)
          IN  stack' = Append(SubSeq(stack, 1, Len(stack) - 2), p2) /\ UNCHANGED <<status, exc, fuel, result>>
\* Unwind: one frame per step, each restoring the mode it saved (the finally blocks, innermost first)
Unwind ==
  /\ status = "raising" /\ stack # <<>>
  /\ w' = [w EXCEPT !.san = Top.saved]
  /\ stack' = SubSeq(stack, 1, Len(stack) - 1)
  /\ status' = (IF Len(stack) = 1 THEN "done" ELSE "raising")
  /\ UNCHANGED <<exc, fuel, result>>
Step ==
  /\ status = "running" /\ stack # <<>> /\ Top.code # <<>>
  /\ LET f == Top
         i == Head(f.code)
     IN  CASE i.tag = "field"   -> StepField(i, f)
           [] i.tag = "length"  -> StepLength(i, f)
           [] i.tag = "array"   -> StepArray(i, f)
           [] i.tag = "welem"   -> StepElem(i, f)
           [] i.tag = "wdelim"  -> AfterWrite(WR!WApply(w, [op |-> "add_byte", n |-> <<0, 255>>]), Rest(f))
           [] i.tag = "dummy"   -> StepDummy(i, f)
           [] i.tag = "switch"  -> StepSwitch(i, f)
           [] i.tag = "chunked" -> StepChunked(i, f)
           [] i.tag = "exit_chunked" -> StepExitChunked(f)
           [] i.tag = "break"   -> StepBreak(f)
SNext == Step \/ Return \/ Unwind

\* ---- properties of the machine itself ----
\* C15: whenever a frame is left (Return or Unwind) the mode becomes the one that frame found
ModeRestored == [][(Len(stack') < Len(stack)) => w'.san = stack[Len(stack)].saved]_svars
\* refused or faulted behaviours never report success
NoSilentFailure == (status = "done" /\ exc # "") => IsNone(result)
=============================================================================
