---------------------------- MODULE MC_Sequencer ----------------------------
(* Bounded instance: histories of the shape  n1 x next, set, n2 x next, set, ... with each run *)
(* up to MAXRUN (> one wrap-around) and at most MAXSETS updates; a second sequencer ("peer")   *)
(* applies the same history and must stay in lockstep.  hist records the behaviour; maximal    *)
(* histories are printed for replay into the real PacketSequencer.                             *)
EXTENDS Integers, Sequences, TLC, Json
CONSTANTS MAXRUN, MAXSETS, EMIT
VARIABLES start, counter, served, last, pstart, pcounter, pserved, plast, hist, run, sets
A == INSTANCE Sequencer
P == INSTANCE Sequencer WITH start <- pstart, counter <- pcounter, served <- pserved, last <- plast
vars == <<start, counter, served, last, pstart, pcounter, pserved, plast, hist, run, sets>>

STARTS == {[kind |-> "simple", value |-> 0], [kind |-> "account", value |-> 7], [kind |-> "init", value |-> 1756],
           [kind |-> "ping", value |-> 10], [kind |-> "account", value |-> 239],
           \* "arbitrary start values": negative (reachable from wire bytes: from_init_values(0, 5) = -8) and beyond the short range
           [kind |-> "init", value |-> -8], [kind |-> "simple", value |-> 64005]}
Init == /\ \E s \in {[kind |-> "simple", value |-> 0], [kind |-> "init", value |-> 1756]} : A!Init(s) /\ P!Init(s) /\ hist = <<[op |-> "init", kind |-> s.kind, value |-> s.value]>>
        /\ run = 0 /\ sets = 0
DoNext == /\ run < MAXRUN /\ A!NextSequence /\ P!NextSequence
          /\ hist' = Append(hist, [op |-> "next", ret |-> last'])
          /\ run' = run + 1 /\ UNCHANGED sets
DoSet == /\ sets < MAXSETS /\ \E s \in STARTS : A!SetStart(s) /\ P!SetStart(s) /\ hist' = Append(hist, [op |-> "set", kind |-> s.kind, value |-> s.value])
         /\ run' = 0 /\ sets' = sets + 1
\* an unreadable start: installed like any other, a request fails (at most once in a row here), then the value arrives
DoSetPending == /\ sets < MAXSETS /\ A!SetStart([kind |-> "pending", value |-> 0]) /\ P!SetStart([kind |-> "pending", value |-> 0])
                /\ hist' = Append(hist, [op |-> "set", kind |-> "pending", value |-> 0]) /\ run' = 0 /\ sets' = sets + 1
DoFail == /\ hist[Len(hist)].op # "next_fail" /\ A!FailedRequest /\ P!FailedRequest
          /\ hist' = Append(hist, [op |-> "next_fail"]) /\ UNCHANGED <<run, sets>>
DoResolve == /\ \E v \in {5, 1000} : A!Resolve(v) /\ P!Resolve(v) /\ hist' = Append(hist, [op |-> "resolve", value |-> v])
             /\ UNCHANGED <<run, sets>>
Next == DoNext \/ DoSet \/ DoSetPending \/ DoFail \/ DoResolve
Spec == Init /\ [][Next]_vars

TypeOK == A!TypeOK
CounterTracksServed == A!CounterTracksServed
Lockstep == A!Lockstep
UpdateKeepsCounter == A!UpdateKeepsCounter
TwoPeers == last = plast /\ counter = pcounter
\* always TRUE; prints maximal histories
Emit == (EMIT /\ sets = MAXSETS /\ run = MAXRUN /\ ~A!Unreadable(start)) => PrintT(ToJson([hist |-> hist]))
=============================================================================
