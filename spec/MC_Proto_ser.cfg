CONSTANTS
  TYPES <- MCTypes
  DOMS <- MCDoms
  MODE = "ser"
  NFUEL = 0
  NDFUEL = 0
  EMIT = FALSE
  RICH = TRUE
  MAXBYTES = 0
  WITHSIZE = TRUE
  LOOPBOUND = 300
SPECIFICATION Spec
CHECK_DEADLOCK FALSE
INVARIANT SerLeavesModeAsFound
INVARIANT PNoSilentFailure
PROPERTY PModeRestored
