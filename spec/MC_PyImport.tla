---------------------------- MODULE MC_PyImport ----------------------------
(* ImportData.tla is written by the harness from the real files (ast): IMods, IPrivate, IFirst,       *)
(* IDocPaths (documented modules), IExports (<<[name, home, def]>>).                                    *)
EXTENDS PyImport, ImportData, Json
\* the properties on the model's own final namespace - recorded, not asserted: what counts is the observation
ModelUnresolved == {m \in IDocPaths : ~Resolves(ns, m)}
ModelSplit == {i \in 1..Len(IExports) : ~OneObject(ns, IExports[i])}
NoImportError == status \notin {"ImportError", "AttributeError"}
Emit == status = "done" => PrintT(ToJson([first |-> first, ns |-> ns, unresolved |-> ModelUnresolved, split |-> ModelSplit]))
EmitErr == status \in {"ImportError", "AttributeError"} => PrintT(ToJson([first |-> first, error |-> status]))
=============================================================================
