---------------------------- MODULE Bulk_EoNumbers ----------------------------
(* C07 binding: rows produced by the real encode_number / decode_number against the spec.    *)
(* Block kinds                                                                               *)
(*   enc      rows [hi, lo, b0, b1, b2, b3]     arbitrary in-range n                          *)
(*   enc_exh  base [hi, lo]; row i (1-based) = [b0..b3] for n = base + i - 1  (Covered by     *)
(*            construction: the spec, not the harness, names the input of each row)          *)
(*   dec      rows [bytes, hi, lo]              arbitrary byte strings                        *)
(*   dec_exh  len, base; row i = [hi, lo] for the byte string of length len whose base-256     *)
(*            little-endian index is base + i - 1                                             *)
EXTENDS EoNumbers, TLC

ByteString(len, idx) == [j \in 1..len |-> (idx \div (CASE j = 1 -> 1 [] j = 2 -> 256 [] j = 3 -> 65536)) % 256]

Bad(blk) ==
  CASE blk.kind = "enc" ->
         {i \in 1..Len(blk.rows) :
            LET r == blk.rows[i] IN Encode(<<r[1], r[2]>>) # <<r[3], r[4], r[5], r[6]>>}
    [] blk.kind = "enc_exh" ->
         {i \in 1..Len(blk.rows) :
            LET r == blk.rows[i]
                n == LAdd(<<blk.base[1], blk.base[2]>>, <<0, i - 1>>)
            IN  Encode(n) # <<r[1], r[2], r[3], r[4]>>}
    [] blk.kind = "dec" ->
         {i \in 1..Len(blk.rows) :
            LET r == blk.rows[i] IN Decode(r[1]) # <<r[2], r[3]>>}
    [] blk.kind = "dec_exh" ->
         {i \in 1..Len(blk.rows) :
            LET r == blk.rows[i] IN Decode(ByteString(blk.len, blk.base + i - 1)) # <<r[1], r[2]>>}

VARIABLES g, k
D == INSTANCE BulkDriver WITH BadRows <- Bad
Init == D!BInit
Next == D!BNext
Report == D!Report
=============================================================================
