---------------------------- MODULE Bulk_EoStrings ----------------------------
(* C08 binding: rows from the real in-place encode_string / decode_string.                   *)
(*   rows   [s, enc(s), dec(s), dec(enc(s)), enc(dec(s))]      arbitrary s                   *)
(*   exh    len, base; row i = [enc, dec, decenc, encdec] for the string of length len over   *)
(*          ALPHA whose base-8 little-endian index is base + i - 1 (inputs named by the spec) *)
EXTENDS EoStrings, TLC
ALPHA8 == <<0, 33, 34, 79, 80, 126, 127, 255>>
Pow8(j) == CASE j = 1 -> 1 [] j = 2 -> 8 [] j = 3 -> 64 [] j = 4 -> 512 [] j = 5 -> 4096 [] j = 6 -> 32768 [] j = 7 -> 262144
Str(len, idx) == [j \in 1..len |-> ALPHA8[((idx \div Pow8(j)) % 8) + 1]]

RowBad(s, e, d, de, ed) ==
  \/ e # EncodeString(s) \/ d # DecodeString(s)
  \/ de # DecodeString(e) \/ ed # EncodeString(d)
  \* the property's own predicate on the observation (implied by the above and the model theorems)
  \/ Len(e) # Len(s) \/ Len(d) # Len(s)
  \/ \E i \in 1..Len(s) : s[i] # 126 /\ (de[i] # s[i] \/ ed[i] # s[i])

Bad(blk) ==
  CASE blk.kind = "rows" ->
         {i \in 1..Len(blk.rows) : LET r == blk.rows[i] IN RowBad(r[1], r[2], r[3], r[4], r[5])}
    [] blk.kind = "exh" ->
         {i \in 1..Len(blk.rows) : LET r == blk.rows[i] IN RowBad(Str(blk.len, blk.base + i - 1), r[1], r[2], r[3], r[4])}

VARIABLES g, k
D == INSTANCE BulkDriver WITH BadRows <- Bad
Init == D!BInit
Next == D!BNext
Report == D!Report
=============================================================================
