CONSTANT PINGSTEP = 1
SPECIFICATION Spec
CHECK_DEADLOCK FALSE
INVARIANT SentIsReconstructible
INVARIANT InRange
