---------------------------- MODULE MC_EoWire ----------------------------
(* Bounded instance for C09 + C04.  Phase "write": every history of up to DEPTH calls over the  *)
(* alphabet CALLS; phase "read": the matching reads are performed on a reader over the output.   *)
(* The model itself must satisfy every C09/C04 predicate (invariants below); maximal histories   *)
(* are emitted as call sequences that the harness replays on the real EoWriter/EoReader.         *)
EXTENDS EoWire, TLC, Json
CONSTANTS DEPTH, EMIT
VARIABLES w, hist, phase, rd, nread, ok
vars == <<w, hist, phase, rd, nread, ok>>

INTMAX == INT_MAX_L
Ints == [ add_byte  |-> {<<0, 0>>, <<0, 255>>, <<0, 256>>, <<32768, 0>>},
          add_char  |-> {<<0, 0>>, <<0, 252>>, <<0, 253>>},
          add_short |-> {<<0, 253>>, <<0, 64008>>, <<0, 64009>>},
          add_three |-> {<<0, 64009>>, <<247, 6884>>, <<247, 6885>>},
          add_int   |-> {<<247, 6885>>, LSub(INTMAX, <<0, 1>>), INTMAX, LAdd(INTMAX, <<0, 1>>), <<65536, 0>>} ]
S1 == {<<>>, <<97>>, <<255>>, <<126, 97>>, <<97, 255, 256>>, <<128, 255>>, <<127, 33, 80>>}
S2 == {<<>>, <<255>>, <<97, 255, 256>>, <<126, 98>>}
CALLS ==
  UNION {{[op |-> o, n |-> n] : n \in Ints[o]} : o \in DOMAIN Ints}
  \cup {[op |-> "add_bytes", bytes |-> b] : b \in {<<>>, <<0, 255, 1>>}}
  \cup {[op |-> o, s |-> s] : o \in {"add_string", "add_encoded_string"}, s \in S1}
  \cup {[op |-> o, s |-> s, len |-> l, padded |-> p] : o \in {"add_fixed_string", "add_fixed_encoded_string"}, s \in S2, l \in {0, 1, 3, 5}, p \in BOOLEAN}
  \cup {[op |-> "set_san", b |-> b] : b \in BOOLEAN}

Accepted == SelectSeq(hist, LAMBDA h : h.exc = "" /\ h.call.op # "set_san")
Init == w = WR!NewWriter /\ hist = <<>> /\ phase = "write" /\ rd = RD!NewReader(<<>>) /\ nread = 0 /\ ok = TRUE
Write == /\ phase = "write" /\ Len(hist) < DEPTH
         /\ \E c \in CALLS : LET r == WR!WApply(w, c)
                             IN  /\ w' = r.w
                                 /\ hist' = Append(hist, [call |-> c, exc |-> r.exc, before |-> w.bytes, after |-> r.w.bytes, san |-> w.san])
         /\ UNCHANGED <<phase, rd, nread, ok>>
StartRead == /\ phase = "write" /\ Len(hist) = DEPTH /\ phase' = "read" /\ rd' = RD!NewReader(w.bytes)
             /\ UNCHANGED <<w, hist, nread, ok>>
Read == /\ phase = "read" /\ nread < Len(Accepted)
        /\ LET h == Accepted[nread + 1]
               x == RD!RApply(rd, MatchingRead(h.call, nread + 1 = Len(Accepted)))
           IN  /\ rd' = x.r /\ nread' = nread + 1
               /\ ok' = (ok /\ x.exc = "" /\ (Lossy(h.call, h.san) \/ x.ret = Expected(h.call, h.san)))
        /\ UNCHANGED <<w, hist, phase>>
Next == Write \/ StartRead \/ Read
Spec == Init /\ [][Next]_vars

\* the model satisfies C09 on every step ...
LastOK == hist = <<>> \/ LET h == hist[Len(hist)]
                         IN  /\ WR!Atomic(h.call, h.before, h.after, h.exc)
                             /\ WR!ExactLength(h.call, h.before, h.after, h.exc)
                             /\ WR!SanitisedNoFF(h.call, h.san, h.before, h.after, h.exc)
                             /\ WR!ExactImage(h.call, h.san, h.before, h.after, h.exc)
\* ... and C04 on every read-back
ReadBackOK == ok
ConsumedExactly == (phase = "read" /\ nread = Len(Accepted)) => RD!Remaining(rd) = 0
\* vacuity witnesses (must be violated): lossy cases and refusals do occur
WitnessNoLossy == \A i \in 1..Len(hist) : ~Lossy(hist[i].call, hist[i].san) \/ hist[i].exc # ""
WitnessNoRefusal == \A i \in 1..Len(hist) : hist[i].exc = ""
Emit == (EMIT /\ phase = "write" /\ Len(hist) = DEPTH) => PrintT(ToJson([calls |-> [i \in 1..Len(hist) |-> hist[i].call]]))
=============================================================================
