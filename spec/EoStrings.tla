---------------------------- MODULE EoStrings ----------------------------
(* The EO string "encryption" (property C08): invert the printable range, then reverse.      *)
EXTENDS EoBytes

\* position i (1-based) of a string of length n is "flipped" iff (n + i - 1) is odd, i.e. the
\* first byte is flipped exactly when the length is odd, and flipping alternates from there
Flipped(n, i) == (n + i - 1) % 2 = 1
InvertByte(c, flipped) ==
  IF c < 34 \/ c > 126 THEN c                      \* outside 0x22..0x7E: untouched
  ELSE LET f == IF ~flipped THEN 0 ELSE IF c >= 80 THEN -46 ELSE 46   \* 0x2E, sign changes at 0x50
       IN  159 - c - f                              \* 0x9F - c - f
Invert(s) == [i \in 1..Len(s) |-> InvertByte(s[i], Flipped(Len(s), i))]

EncodeString(s) == Reverse(Invert(s))
DecodeString(s) == Invert(Reverse(s))

\* ---- C08 theorems, as predicates of one byte string ----
LengthPreserved(s) == Len(EncodeString(s)) = Len(s) /\ Len(DecodeString(s)) = Len(s)
DecEnc(s) == \A i \in 1..Len(s) : s[i] # 126 => DecodeString(EncodeString(s))[i] = s[i]
EncDec(s) == \A i \in 1..Len(s) : s[i] # 126 => EncodeString(DecodeString(s))[i] = s[i]
\* order reversed and bytes outside the printable range fixed; printable range mapped into 0x21..0x7D
Shape(s) == \A i \in 1..Len(s) :
              LET e == EncodeString(s)[Len(s) - i + 1]
                  d == DecodeString(s)[Len(s) - i + 1]
              IN  IF s[i] < 34 \/ s[i] > 126 THEN e = s[i] /\ d = s[i]
                  ELSE e \in 33..125 /\ d \in 33..125
BreakSafe(s) == /\ Count(EncodeString(s), 0) = Count(s, 0) /\ Count(EncodeString(s), 255) = Count(s, 255)
                /\ Count(DecodeString(s), 0) = Count(s, 0) /\ Count(DecodeString(s), 255) = Count(s, 255)
AllC08(s) == LengthPreserved(s) /\ DecEnc(s) /\ EncDec(s) /\ Shape(s) /\ BreakSafe(s)
=============================================================================
