---------------------------- MODULE Bulk_SequenceStart ----------------------------
(* C12 binding: every outcome of every random draw of the three generate() functions, as rows *)
(*   [kind, draws, exc, value, seq1, seq2, fromValue]   draws = <<[lo, hi, ret]>>, exc = ""     *)
(* or the exception class if generate()/from_*() raised (then the remaining columns are -1).   *)
(* A row is good iff it is a behaviour of SequenceStart: every Draw, then Result, then          *)
(* FromValues are enabled in turn.                                                             *)
EXTENDS Integers, Sequences, TLC
S == INSTANCE SequenceStart WITH phase <- "x", kind <- "x", ndraws <- 0, value <- 0, seq1 <- 0, seq2 <- 0
RowOK(r) == /\ r[3] = ""
            /\ \A i \in 1..Len(r[2]) : S!DrawOK(r[2][i][1], r[2][i][2], r[2][i][3])
            /\ S!ResultOK(r[1], r[4], r[5], r[6])
            /\ r[7] = S!Reconstruct(r[1], r[4], r[5], r[6]) /\ r[7] = r[4]
Bad(blk) == {i \in 1..Len(blk.rows) : ~RowOK(blk.rows[i])}
VARIABLES g, k
D == INSTANCE BulkDriver WITH BadRows <- Bad
Init == D!BInit
Next == D!BNext
Report == D!Report
=============================================================================
