---------------------------- MODULE Bulk_PyImport ----------------------------
(* C20 binding: the namespaces OBSERVED in fresh interpreters, judged by PyImport's own predicates.   *)
(* row = [first, ns]; verdict entries <<row, "path", module>> / <<row, "object", index into IExports>>.  *)
EXTENDS PyImport, ImportData, Json, IOUtils
\* PyImport's variables are unused here
BadRow(k, row) ==
  {<<k, "path", m>> : m \in {x \in IDocPaths : ~Resolves(row.ns, x)}}
  \cup {<<k, "object", IExports[i].name>> : i \in {j \in 1..Len(IExports) : ~OneObject(row.ns, IExports[j])}}
Bad(blk) == UNION {BadRow(k, blk.rows[k]) : k \in 1..Len(blk.rows)}
VARIABLES g, k
D == INSTANCE BulkDriver WITH BadRows <- Bad
BInit == D!BInit /\ loaded = 0 /\ ns = 0 /\ stack = 0 /\ status = 0 /\ first = 0
BNext == D!BNext /\ UNCHANGED ivars
Report == D!Report
=============================================================================
