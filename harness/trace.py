"""Pattern V: traces recorded from the real code, validated in one TLC run per file (Trace_X.tla + Trace.cfg)."""
from __future__ import annotations

from pathlib import Path

from .common import MachineryError, NCPU, dump_json, run_tlc


def validate(module: str, traces: list, d: Path, *, cfg="Trace.cfg", timeout=3600, workers=NCPU, name="traces.json", env=None):
    """traces: list of dicts {init, events}.  Returns (tlc_result, accepted:int, rejected:list of verdict dicts (with tid 1-based))."""
    if not traces:
        raise MachineryError("no traces to validate - refusing to pass vacuously")
    f = d / name
    dump_json(f, traces)
    e = {"TRACE_FILE": str(f)}
    if env:
        e.update(env)
    res = run_tlc(module, cfg, env=e, timeout=timeout, workers=workers)
    if not res.ok:
        raise MachineryError(f"trace validation run of {module} did not complete:\n{res.tail()}")
    verdicts = {}
    for rec in res.printed:
        if isinstance(rec, dict) and "tid" in rec and "ok" in rec:
            t = rec["tid"]
            # a trace may print 'ok' only at its end; a reject line wins
            if t not in verdicts or not rec["ok"]:
                verdicts[t] = rec
    if len(verdicts) != len(traces):
        raise MachineryError(f"{module}: {len(verdicts)} verdicts for {len(traces)} traces - acceptance is explicit, refusing to pass")
    rejected = [v for _, v in sorted(verdicts.items()) if not v["ok"]]
    return res, len(traces) - len(rejected), rejected
