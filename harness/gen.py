"""Running the real code generator from the snapshot on spec trees written by the harness."""
from __future__ import annotations

import contextlib
import importlib
import io
import os
import sys
from pathlib import Path

SKELETON_DIRS = ["", "net", "net/client", "net/server", "map", "pub", "pub/server"]

NET_BASE = """  <enum name="PacketFamily" type="byte">
    <value name="Connection">1</value>
    <value name="Account">2</value>
    <value name="Talk">3</value>
    <value name="NPC">4</value>
    <value name="Error">255</value>
  </enum>
  <enum name="PacketAction" type="byte">
    <value name="Request">1</value>
    <value name="Accept">2</value>
    <value name="Reply">3</value>
    <value name="Player">4</value>
    <value name="Error">255</value>
  </enum>
"""


def write_tree(root: Path, files: dict, skeleton=True):
    """files: {'net': '<xml body>', 'net/client': ...}; bodies are wrapped in <protocol>.  With skeleton, every directory
    an importable package needs gets a protocol.xml and net/ gets PacketFamily/PacketAction."""
    dirs = set(files)
    if skeleton:
        dirs |= set(SKELETON_DIRS)           # like eo-protocol itself: a protocol.xml in the root and in every package directory
    for d in sorted(dirs):
        body = files.get(d, "")
        if skeleton and d == "net" and "PacketFamily" not in body:
            body = NET_BASE + body
        p = root / d
        p.mkdir(parents=True, exist_ok=True)
        (p / "protocol.xml").write_text("<protocol>\n" + body + "\n</protocol>\n")


def generator_class(src: Path):
    """Import ProtocolCodeGenerator from the snapshot (fresh each time)."""
    for k in [k for k in sys.modules if k == "protocol_code_generator" or k.startswith("protocol_code_generator.")]:
        del sys.modules[k]
    if str(src) not in sys.path:
        sys.path.insert(0, str(src))
    importlib.invalidate_caches()
    return importlib.import_module("protocol_code_generator.generate.code_generator").ProtocolCodeGenerator


REUSE_INSTANCE = True


def generate(src: Path, xml_root: Path, out: Path | None = None, warmups=()):
    """Runs the real generator; returns None on success or the exception it raised.  warmups: (xml_root, out) pairs generated first,
    in the same process with the same imported generator (a run must not depend on what ran before it)."""
    out = out or (src / "eolib" / "protocol" / "_generated")
    cls = generator_class(src)
    buf = io.StringIO()
    for wx, wo in warmups:
        try:
            with contextlib.redirect_stdout(buf):
                cls(Path(wx)).generate(Path(wo))
        except Exception:
            pass
    inst = cls(Path(xml_root))
    if REUSE_INSTANCE:
        # the SAME instance has already generated an earlier revision of this tree (other enum ordinals and underlying types):
        # generation is a function of the XML as it is now, not of what the instance has seen before
        import re
        import shutil
        import tempfile
        backup = {f: f.read_text() for f in Path(xml_root).rglob("protocol.xml")}
        scratch_out = Path(tempfile.mkdtemp(prefix="decoy-out-", dir=str(Path(xml_root).parent)))
        try:
            for f, t in backup.items():
                t2 = re.sub(r"(<value name=\"[^\"]*\">)(\d+)(</value>)", lambda m: m.group(1) + str(int(m.group(2)) + 1) + m.group(3), t)
                t2 = re.sub(r"(<enum name=\"[^\"]*\" type=\")char(\")", r"\1short\2", t2)
                f.write_text(t2)
            try:
                with contextlib.redirect_stdout(buf):
                    inst.generate(scratch_out)
            except Exception:
                pass
        finally:
            for f, t in backup.items():
                f.write_text(t)
            shutil.rmtree(scratch_out, ignore_errors=True)
    try:
        with contextlib.redirect_stdout(buf):
            inst.generate(Path(out))
    except Exception as e:       # the generator signals rejection with arbitrary exception classes
        return e
    return None
