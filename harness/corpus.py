"""Program records (DESIGN.md Appendix B) <-> eo-protocol XML, and the hand-written regression corpus.

A program is {"name", "kind": "struct"|"packet", "family", "action", "dir", "code": [instr...]}; an instruction carries
every attribute (absent ones as sentinels) so that TLC sees uniformly shaped records.  The renderer is attributes in,
elements out - no semantics."""
from __future__ import annotations

from .common import limbs, unlimbs

NONE = "None"
NOLEN = {"k": "none", "n": 0, "ref": ""}
INT_TYPES = ("byte", "char", "short", "three", "int")


def _instr(tag, **kw):
    i = {"tag": tag, "name": "", "type": "", "over": "", "len": dict(NOLEN), "padded": False, "optional": False,
         "delimited": False, "trailing": False, "hard": NONE, "offset": 0, "body": [], "field": "", "ftype": "", "cases": [],
         "explicit": False}
    i.update(kw)
    return i


def _len(length):
    if length is None:
        return dict(NOLEN)
    if isinstance(length, int):
        return {"k": "lit", "n": length, "ref": ""}
    return {"k": "ref", "n": 0, "ref": length}


def _hard(typ, value):
    if value is None:
        return NONE
    if typ in INT_TYPES:
        return limbs(int(value))
    if typ == "bool":
        return bool(value)
    return [ord(c) if ord(c) < 256 else 256 for c in value]   # ASCII/latin hardcoded strings only


def field(name, typ, *, length=None, padded=False, optional=False, hard=None, explicit=False):
    base, _, over = typ.partition(":")
    return _instr("field", name=name or "", type=base, over=over, len=_len(length), padded=padded, optional=optional,
                  hard=_hard(base, hard), explicit=explicit)


def array(name, typ, *, length=None, optional=False, delimited=False, trailing=True, explicit=False):
    base, _, over = typ.partition(":")
    return _instr("array", name=name, type=base, over=over, len=_len(length), optional=optional, delimited=delimited,
                  trailing=trailing if delimited else False, explicit=explicit)


def length(name, typ, *, offset=0, optional=False):
    return _instr("length", name=name, type=typ, offset=offset, optional=optional)


def dummy(typ, value):
    return _instr("dummy", type=typ, hard=_hard(typ, value))


def chunked(*body):
    return _instr("chunked", body=list(body))


def brk():
    return _instr("break")


def pascal(name):
    return "".join(p[:1].upper() + p[1:].lower() for p in name.split("_"))


def case(value=None, *body, default=False):
    """value: int (numeric / unrecognised ordinal) or str (enum member name)."""
    if default:
        return {"default": True, "val": {"k": "num", "n": [0, 0], "name": ""}, "cname": "Default", "body": list(body)}
    if isinstance(value, int):
        return {"default": False, "val": {"k": "num", "n": limbs(value), "name": ""}, "cname": str(value), "body": list(body)}
    return {"default": False, "val": {"k": "name", "n": [0, 0], "name": value}, "cname": value, "body": list(body)}


def switch(fieldname, ftype, *cases):
    cs = []
    for c in cases:
        c = dict(c)
        c["cname"] = pascal(fieldname) + "Data" + c["cname"]
        cs.append(c)
    return _instr("switch", field=fieldname, ftype=ftype, cases=cs)


# ------------------------------------------------------------------------------------------------
# XML rendering
# ------------------------------------------------------------------------------------------------

def _text(i):
    if i.get("hardkind"):
        return i.get("hardtext", "")
    h = i["hard"]
    if h == NONE:
        return None
    if i["type"] in INT_TYPES:
        return str(unlimbs(h))
    if i["type"] == "bool":
        return "true" if h else "false"
    return "".join(chr(c) for c in h)


def _attr_bool(name, val, explicit, default=False):
    if val != default:
        return f' {name}="{"true" if val else "false"}"'
    if explicit:
        return f' {name}="{"true" if val else "false"}"'       # default spelled out
    return ""


def render(code, ind="    "):
    out = []
    for i in code:
        t = i["tag"]
        if t in ("field", "array", "length", "dummy"):
            a = ""
            if i["name"]:
                a += f' name="{i["name"]}"'
            a += f' type="{i["type"]}{":" + i["over"] if i["over"] else ""}"'
            if i["len"]["k"] == "lit":
                a += f' length="{i["len"]["n"]}"'
            elif i["len"]["k"] == "ref":
                a += f' length="{i["len"]["ref"]}"'
            ex = i.get("explicit", False)
            if t == "field":
                a += _attr_bool("padded", i["padded"], ex)
            if t in ("field", "array", "length"):
                a += _attr_bool("optional", i["optional"], ex)
            if t == "array":
                a += _attr_bool("delimited", i["delimited"], ex)
                if i["delimited"]:
                    a += _attr_bool("trailing-delimiter", i["trailing"], ex, default=True)
            if t == "length" and i["offset"]:
                a += f' offset="{i["offset"]}"'
            txt = _text(i)
            out.append(f"{ind}<{t}{a}" + (f">{_xml_escape(txt)}</{t}>" if txt is not None else "/>"))
        elif t == "chunked":
            out.append(f"{ind}<chunked>\n" + render(i["body"], ind + "  ") + f"\n{ind}</chunked>")
        elif t == "break":
            out.append(f"{ind}<break/>")
        elif t == "switch":
            cs = []
            for c in i["cases"]:
                if c["default"]:
                    h = ' default="true"'
                else:
                    h = f' value="{unlimbs(c["val"]["n"]) if c["val"]["k"] == "num" else c["val"]["name"]}"'
                    if i.get("explicit"):
                        h += ' default="false"'
                if c["body"]:
                    cs.append(f"{ind}  <case{h}>\n" + render(c["body"], ind + "    ") + f"\n{ind}  </case>")
                else:
                    cs.append(f"{ind}  <case{h}/>")
            out.append(f'{ind}<switch field="{i["field"]}">\n' + "\n".join(cs) + f"\n{ind}</switch>")
    return "\n".join(out)


def _xml_escape(s):
    return s.replace("&", "&amp;").replace("<", "&lt;").replace(">", "&gt;")


def fix_cnames(code):
    """SpecGen emits the bare case value as cname; the generated class is <Field>Data<value>."""
    for i in code:
        if i["tag"] == "chunked":
            fix_cnames(i["body"])
        elif i["tag"] == "switch":
            for c in i["cases"]:
                pre = pascal(i["field"]) + "Data"
                if not c["cname"].startswith(pre):
                    c["cname"] = pre + c["cname"]
                fix_cnames(c["body"])
    return code


def render_program(p):
    if p["kind"] == "struct":
        return f'  <struct name="{p["name"]}">\n{render(p["code"])}\n  </struct>\n'
    return f'  <packet family="{p["family"]}" action="{p["action"]}">\n{render(p["code"])}\n  </packet>\n'


def render_enum(name, e):
    return f'  <enum name="{name}" type="{e["utype"]}">\n' + "".join(
        f'    <value name="{"None" if v["name"] == "None_" else v["name"]}">{unlimbs(v["ord"])}</value>\n' for v in e["values"]) + "  </enum>\n"


# ------------------------------------------------------------------------------------------------
# helper type library (part of every corpus) and hand-written regression programs
# ------------------------------------------------------------------------------------------------

def library():
    """Returns TYPES entries {name: enum|struct} shared by all programs."""
    t = {}
    t["Color"] = {"kind": "enum", "utype": "char", "dir": "net",
                  "values": [{"name": "Red", "ord": limbs(0)}, {"name": "Green", "ord": limbs(1)}, {"name": "Blue", "ord": limbs(5)}]}
    t["Kind"] = {"kind": "enum", "utype": "short", "dir": "net",
                 "values": [{"name": "None_", "ord": limbs(0)}, {"name": "Big", "ord": limbs(300)}]}
    t["Coords"] = {"kind": "struct", "dir": "net", "code": [field("x", "char"), field("y", "char")]}
    t["Named"] = {"kind": "struct", "dir": "net",
                  "code": [chunked(field("name", "string"), brk(), field("c", "Coords"))]}
    t["Tail"] = {"kind": "struct", "dir": "net", "code": [field("a", "char"), field("b", "short", optional=True)]}
    t["Item"] = {"kind": "struct", "dir": "net", "code": [field("id", "short"), field("amount", "three")]}
    # a chunked struct whose members are all fixed-size: it still has NO fixed size (chunked sections never have)
    t["CPair"] = {"kind": "struct", "dir": "net", "code": [chunked(field("a", "char"), brk(), field("b", "char"))]}
    return t


def hostile_name_programs():
    """Field names chosen against the identifiers the GENERATED code uses for itself (the grammar lets a field carry any name).
    Returns [(program, fixed valid object, the name in question)]."""
    def S(name, *code):
        return {"name": name, "kind": "struct", "dir": "net", "family": "", "action": "", "code": list(code), "rt": True, "gen": False}
    L = lambda n: [n >> 16, n & 65535]
    return [
        (S("NLoopVar", field("i", "char"), length("n", "char"), array("xs", "char", length="n")), {"_t": "NLoopVar", "i": L(7), "xs": [L(1), L(2), L(3)]}, "i"),
        (S("NArrayLength", field("xs_length", "char"), array("xs", "char")), {"_t": "NArrayLength", "xs_length": L(9), "xs": [L(1), L(2), L(3)]}, "xs_length"),
        (S("NResult", field("result", "char"), field("b", "char")), {"_t": "NResult", "result": L(9), "b": L(1)}, "result"),
        (S("NWriterData", field("writer", "char"), field("data", "char")), {"_t": "NWriterData", "writer": L(9), "data": L(1)}, "writer/data"),
        (S("NLoopVarLater", length("n", "char"), array("xs", "char", length="n"), field("i", "char")), {"_t": "NLoopVarLater", "xs": [L(1), L(2)], "i": L(7)}, "i (after the loop)"),
    ]


def hand_corpus():
    """Programs shaped after constructs the CHANGELOG singles out, plus one of each instruction kind."""
    P = []
    # rt: the program is wire-unambiguous (C01's quantifier); TLC re-checks the tag on the model (PRoundTrip)
    def S(name, *code, rt=True):
        P.append({"name": name, "kind": "struct", "dir": "net", "family": "", "action": "", "code": list(code), "rt": rt, "gen": False})
    def K(family, action, d, *code, rt=True):
        suffix = "ClientPacket" if d == "net/client" else "ServerPacket"
        P.append({"name": family + action + suffix, "kind": "packet", "dir": d, "family": family, "action": action, "code": list(code), "rt": rt, "gen": False})
    # overrides resolved BEFORE the first plain use of the same type (type tables must not be keyed by the plain name)
    S("HOverrideFirst", field("q", "bool:short"), field("p", "bool"), field("wide", "Color:short"), field("col", "Color"), field("k", "Kind:char"), field("k2", "Kind"))
    S("HInts", field("a", "byte"), field("b", "char"), field("c", "short"), field("d", "three"), field("e", "int"))
    S("HBools", field("p", "bool"), field("q", "bool:short"), field("col", "Color"), field("wide", "Color:short"), field("k", "Kind"))
    S("HStrings", field("fixed", "string", length=3), field("pad", "string", length=4, padded=True),
      field("enc", "encoded_string", length=2), field("rest", "string"))
    S("HEncTail", field("n", "char"), field("rest", "encoded_string"))
    S("HBlob", field("n", "short"), field("data", "blob"))
    S("HHard", field("", "char", hard=7), field("tag", "string", length=2, hard="OK"), field("", "string", hard="hi"), field("v", "short"), rt=False)    # unsized constant in the middle
    S("HHard2", field("", "char", hard=7), field("tag", "string", length=2, hard="OK"), field("", "string", length=2, hard="hi"), field("v", "short"),
      field("flag", "bool", hard=True), field("", "string", hard="end"))
    S("HLenStr", length("name_length", "char"), field("name", "string", length="name_length"), field("z", "char"))
    S("HLenOff", length("n", "short", offset=1), array("xs", "char", length="n"))
    S("HLenNeg", length("n", "char", offset=-1), field("s", "encoded_string", length="n"))
    S("HArrFixed", array("pts", "Coords", length=2), field("z", "char"))
    S("HArrRest", field("n", "char"), array("items", "Item"))
    S("HArrRestShort", array("vals", "short"))
    S("HArrTail", field("n", "char"), array("tails", "Tail"), rt=False)                 # optional tails inside array elements
    S("HOpt", field("a", "char"), field("b", "short", optional=True), field("c", "string", optional=True))
    S("HOptStruct", field("a", "char"), field("c", "Coords", optional=True), field("d", "char", optional=True))
    S("HChunk", chunked(field("name", "string"), brk(), field("title", "string"), brk(), field("n", "short")))
    S("HChunkThenPlain", chunked(field("name", "string"), brk()), field("n", "short"), field("m", "char"))
    S("HDelimTrail", chunked(array("names", "string", delimited=True, trailing=True)))
    S("HDelimSep", chunked(length("n", "char"), array("names", "string", length="n", delimited=True, trailing=False), brk(), field("z", "char")))
    S("HDelimStructs", chunked(array("people", "Named", delimited=True, trailing=True)))
    S("HNestedChunk", field("hdr", "char"), field("who", "Named"), field("ftr", "char"))
    S("HNestedInChunk", chunked(field("who", "Named"), brk(), field("s", "string")))
    S("HSwitchInt", field("kind", "char"),
      switch("kind", "char", case(1, field("x", "short")), case(2), case(None, field("s", "string"), default=True)))
    S("HSwitchEnum", field("col", "Color"),
      switch("col", "Color", case("Red", field("r", "char")), case("Blue", field("b", "Coords")), case(9, field("u", "char"))))
    S("HSwitchChunk", chunked(field("kind", "char"), brk(),
                              switch("kind", "char", case(1, field("s", "string"), brk(), field("t", "string")), case(2, chunked(field("q", "string")))),
                              brk(), field("end", "string")))
    S("HSwitchOptTail", field("kind", "char"), switch("kind", "char", case(1, field("x", "char"), field("y", "char", optional=True))))
    S("HDummyOnly", dummy("char", 0))
    S("HDummyAfter", array("xs", "char"), dummy("short", 255))
    S("HCaseDummy", field("kind", "char"), switch("kind", "char", case(1, dummy("char", 3)), case(2, field("v", "char"))))
    S("HExplicit", field("a", "char", explicit=True), field("s", "string", length=2, padded=False, explicit=True),
      chunked(array("xs", "char", delimited=False, explicit=True)))
    S("HOptArr", field("a", "char"), array("xs", "char", optional=True))
    S("HOptLen", field("a", "char"), length("n", "char", optional=True), field("s", "string", length="n", optional=True))
    S("HOptCaseOpt", field("kind", "char"), field("b", "short", optional=True),
      switch("kind", "char", case(1, field("y", "char", optional=True)), case(2, field("r", "char", optional=True), field("t", "string", optional=True))), rt=False)
    S("HCaseOptThenOpt", field("kind", "char"), switch("kind", "char", case(1, field("y", "char", optional=True))), field("z", "char", optional=True), rt=False)
    S("HNestDummy", field("a", "char"), field("d", "HDummyAfter"), field("z", "char"), rt=False)        # dummy in a non-empty body
    S("HCaseArrDummy", field("kind", "char"), switch("kind", "char", case(1, array("xs", "char"), dummy("short", 7))))
    S("HChunkInChunk", chunked(field("a", "string"), brk(), chunked(field("b", "string"), brk()), field("c", "string")))
    S("HCaseChunkThenStr", chunked(field("kind", "char"), switch("kind", "char", case(2, chunked(field("q", "string"), brk()), field("t", "string")))))
    S("HArrOfChunked", field("n", "char"), array("people", "Named", length=2), field("tail", "string"))
    S("HPadInChunk", chunked(field("p", "string", length=3, padded=True), field("e", "encoded_string", length=2, padded=True), brk(), field("s", "string")), rt=False)   # 0xFF padding inside a chunk
    S("HEnumArr", length("n", "char"), array("cols", "Color", length="n"), array("kinds", "Kind:char"))
    S("HBoolArr", array("flags", "bool", length=2), array("rest", "bool:short"))
    S("HDelimInts", chunked(field("first", "char"), brk(), array("vals", "short", delimited=True)))
    S("HDelimCoords", chunked(field("n", "char"), brk(), array("pts", "Coords", delimited=True, trailing=True)))
    S("HChunkThenPad", chunked(field("name", "string"), brk()), field("pad", "string", length=3, padded=True), field("b", "byte"), field("m", "char"))
    S("HChunkThenStr", chunked(field("name", "string"), brk()), field("b", "byte"), field("t", "string"))
    S("HPadOnly", field("p", "string", length=3, padded=True))
    S("HEncPadOnly", field("p", "encoded_string", length=2, padded=True), field("z", "char"))
    S("HSwitchEmptyDefault", field("kind", "char"), switch("kind", "char", case(1, field("x", "short")), case(None, default=True)), field("z", "char"))
    S("HSwitchEnumEmptyDefault", field("col", "Color"), switch("col", "Color", case("Red", field("r", "char")), case("Blue"), case(None, default=True)))
    S("HOptLenArrThenOpt", field("a", "char"), length("n", "char", optional=True), array("xs", "short", length="n", optional=True), field("eta", "short", optional=True))
    S("HByteLen", length("n", "byte"), array("xs", "char", length="n"), length("m", "char", offset=2), field("s", "string", length="m"))
    S("HArrCPair", field("n", "char"), array("ps", "CPair"))
    S("HOptBreakOpt", chunked(field("a", "char"), field("b", "short", optional=True), brk(), field("c", "string", optional=True), brk(), field("d", "char", optional=True)), rt=False)
    S("HByteArr", array("raw", "byte", length=3), array("cs", "char"))
    # round 4: a switch inside a case of another switch (case-data classes nested two deep), a blob where chunked reading is on
    # (directly and through a plain nested struct), required fields after a <break/> that follows an optional array / string
    S("HSwitchInCase", field("kind", "char"),
      switch("kind", "char", case(1, field("sub", "char"), switch("sub", "char", case(1, field("x", "short")), case(2, field("s", "string", length=2)))),
             case(2, field("y", "char"))), field("z", "char"))
    S("HBlobInChunk", chunked(field("n", "char"), field("data", "blob"), brk(), field("s", "string")))
    S("HBlobStructInChunk", chunked(field("bb", "HBlob"), brk(), field("s", "string"), brk(), field("m", "char")))
    S("HOptArrBreakReq", chunked(field("a", "char"), brk(), array("xs", "char", optional=True), brk(), field("z", "char"), field("s", "string", length=2)), rt=False)
    # round 5: a length-less delimited array WITHOUT trailing delimiter, followed by more instructions (never reached when reading, but generated)
    S("HDelimNoTrailThenMore", chunked(array("names", "string", delimited=True, trailing=False), array("more", "char", optional=True), field("z", "char", optional=True)), rt=False)
    S("HOnlyOptLen", field("s", "string", length=3, optional=True), array("xs", "char", length=2, optional=True), rt=False)      # every guard of the class is a length check
    S("HOptStrBreakReq", chunked(field("a", "char"), brk(), field("note", "string", optional=True), brk(), field("z", "char")), rt=False)
    # round 6: two chunked sections in one object (also: a case with its own section after the parent's has closed);
    # an unnamed constant inside the element type of a length-less array (the element size decides the count)
    S("HTwoChunks", chunked(field("a", "string"), brk(), field("b", "string"), brk()), field("mid", "char"), chunked(field("c", "string"), brk(), field("d", "string")))
    S("HChunkThenCaseChunk", chunked(field("kind", "char"), brk(), field("a", "string"), brk()), switch("kind", "char", case(1, chunked(field("q", "string"), brk(), field("r", "string")))))
    S("HHardElem", field("", "char", hard=7), field("x", "char"))
    S("HArrHardElem", field("n", "char"), array("es", "HHardElem"))
    # round 8: a numeric <case> label on an enum switch that the value domain reaches (the model's unrecognized ordinal is 7)
    S("HSwitchEnumNum", field("col", "Color"), switch("col", "Color", case("Red", field("r", "char")), case(7, field("u", "short")), case(None, field("s", "string"), default=True)))
    # round 8: counts beyond 256 need a wider length field
    S("HDelimSepShort", chunked(length("n", "short"), array("names", "string", length="n", delimited=True, trailing=False), brk(), field("z", "char"), field("motd", "string")))
    S("HArrShortLen", length("n", "short"), array("xs", "char", length="n"), field("z", "char"))
    # round 7: a positive offset on a char-sized length (the largest count is limit + offset)
    S("HLenOffChar", length("n", "char", offset=2), array("xs", "char", length="n"), field("z", "char"))
    # round 6: objects without instructions (the generated serialize() had an empty try block: fix f2d221e)
    S("HEmpty")
    S("HHoldsEmpty", field("a", "char"), field("e", "HEmpty"), field("z", "char"))
    K("Talk", "Accept", "net/client")
    K("Talk", "Request", "net/client", field("msg", "string"))
    K("Talk", "Request", "net/server", field("code", "char"), field("msg", "string"))
    K("Account", "Reply", "net/server", field("code", "short"),
      switch("code", "short", case(1, field("reason", "string")), case(None, chunked(field("name", "string"), brk(), field("id", "int")), default=True)))
    K("Connection", "Player", "net/server", field("seq1", "short"), field("seq2", "char"))
    return P
