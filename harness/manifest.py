"""Regenerates /verif/MANIFEST.json from the table below (python3 -m harness.manifest)."""
from __future__ import annotations

import json
from pathlib import Path

VERIF = Path(__file__).resolve().parent.parent

# id -> (technique, level text, level note, design ref)
CHECKS = {
    "C07": ("TLA+ codec definitions; TLC exhaustive to 253^3 + scaled radices; Apalache whole-range theorems; bulk table "
            "conformance of encode_number/decode_number checked by TLC",
            "EoNumbers.tla states the codec as mathematics; TLC enumerates every n below 253^2 (quick) / 253^3 (thorough) and the "
            "whole range for radices 2..6, Apalache proves the three theorems for all 0<=n<253^4; the Python functions are bound "
            "to the spec by TLC checking tables they produced (exhaustive on the 1-3 byte ranges, stratified on the 4-byte range), also along call "
            "histories (out-of-range calls interleaved, one mutable buffer refilled, results held until the block is complete: the codec is a function)",
            "TLC/Apalache; the harness only splits integers into 16-bit limbs; 4-byte range of the implementation is stratified",
            "DESIGN.md 6 C07"),
    "C08": ("TLA+ definition of the string codec; TLC exhaustive over short strings and the byte x parity table; bulk table "
            "conformance of encode_string/decode_string checked by TLC",
            "EoStrings.tla defines Invert/Encode/Decode; TLC checks the five C08 theorems on every string up to length 5 (6) over an "
            "8-letter boundary alphabet and on the full byte x position-parity x length-parity table; the in-place Python functions "
            "are bound by TLC checking rows (enc, dec, dec.enc, enc.dec) they produced for the same sets plus random strings",
            "TLC; strings beyond the exhaustive bound are sampled", "DESIGN.md 6 C08"),
    "C10": ("TLA+ functional definitions + pipeline state machine; TLC exhaustive over short strings and pipelines; recorded function "
            "tables and pipeline traces from the real in-place functions validated by TLC",
            "Encrypt.tla defines the four primitives and a pipeline machine (Apply/Undo); TLC checks inverse/permutation/involution/"
            "multiset theorems on every string up to length 6 (7) over 7 letters and that every pipeline of depth <= 3 (4) is undone "
            "exactly; the Python functions are bound by TLC validating their recorded outputs step by step",
            "TLC; long data and large multiples are sampled", "DESIGN.md 6 C10"),
    "C11": ("TLA+ formula with explicit truncating remainder; Apalache bound theorem on the whole documented range; TLC bulk validation of "
            "the real hash on every challenge of the three-byte field",
            "ServerVerify.tla states the client's arithmetic; Apalache proves 0 <= Hash < 253^4 for all challenges <= 11,092,110 (and "
            "refutes it one above); TLC checks the real function's output for all 16,194,277 challenges (thorough) or boundary windows, "
            "stride and residue strata (quick)",
            "that the published formula with C-style remainder is the client's computation (property text)", "DESIGN.md 6 C11"),
    "C12": ("TLA+ state machine Draw*;Result;FromValues over the EO codec; TLC on the most general generator; exhaustive enumeration "
            "of every outcome of every random draw of the real generate() functions, each validated by TLC as a behaviour of the spec",
            "SequenceStart.tla defines which draws/results/reconstructions are allowed (components must survive the EO number codec); "
            "TLC checks every value is producible and every allowed result reconstructs; the real code is bound by substituting its random "
            "source and enumerating all 57,751 + 240 (+ 442,764 thorough; every 7th value quick) outcomes, which TLC accepts or rejects",
            "generate() uses only randrange/randint with step 1 (otherwise the check reports a machinery error)", "DESIGN.md 6 C12"),
    "C13": ("TLA+ state machine with Lockstep/UpdateKeepsCounter action properties and a two-peer product; TLC-generated histories "
            "replayed on PacketSequencer; recorded random histories validated by a TLA+ trace spec",
            "Sequencer.tla: NextSequence/SetStart; TLC explores all histories of runs up to 12 (24) calls between up to 2 updates over 8 "
            "starts of all four SequenceStart classes; every maximal history is replayed on the real class comparing each return value; "
            "3,000 (20,000) random histories up to 200 events (and a dozen of 600-2600) are recorded from the real class and validated by "
            "Trace_Sequencer; histories include user-defined starts whose value cannot be read yet (FailedRequest: a request that raises is no request); "
            "Apalache discharges an inductive invariant for unbounded histories",
            "TLC; histories longer/more varied than the exhaustive shape are sampled", "DESIGN.md 6 C13"),
    "C14": ("TLA+ model of member tables and construction histories with object identities; TLC-enumerated and simulated histories "
            "replayed on hand-written and generated enums under CPython 3.12 and 3.11",
            "ProtocolEnum.tla: Construct(enum, n) with identities; TLC checks members never change / one object per member / unrecognized "
            "iff undeclared over all histories of depth 2 (3) on 4 enums x 12 integers (incl. -1, 2^31, 253^4) plus simulated walks of depth 8; "
            "each history is replayed on real enums (one hand-written, three emitted by the real generator) and the full projection (type, "
            "identity, name, value, int, ==, hash, containment, member tables of all enums; keyword form of the construction) is checked after "
            "every construction, in the presence of namesake classes (declared earlier / module reloaded) and after the generator generated a decoy tree",
            "every CPython >= 3.8 found at run time (3.8-3.13 here)", "DESIGN.md 6 C14"),
    "C04": ("TLA+ composition EoWriter;EoReader with the matching read and expected value per write; TLC exhaustive over short write "
            "histories; traces observed on the real writer/reader pair judged by TLC with the read-back predicates",
            "EoWire.tla derives, for every accepted write, the matching read, the expected value (cp1252 image; sanitised image) and the "
            "lossy exclusions as spec predicates; TLC checks ReadBackOK/ConsumedExactly on every history of depth 2 (3) over 98 calls; "
            "those histories and random ones (arbitrary Unicode incl. C1 controls/astral, ints to 2^40) run on the real classes and TLC "
            "evaluates the same predicates on the observed values",
            "TLC; Python's cp1252 codec maps characters to the spec's Char codes in the harness", "DESIGN.md 6 C04"),
    "C05": ("TLA+ reader state machine (derived break, slices as new readers); TLC exhaustive over short data x call sequences + "
            "simulation; every behaviour replayed on EoReader and compared step by step by TLC",
            "EoReader.tla is the documented chunked-reading model; TLC checks InBounds / Independent / DataImmutable / SliceFresh over all "
            "data <= 4 bytes on {00,01,FE,FF} x all call sequences of depth 2 (3) on every live reader, plus simulated walks; each behaviour "
            "and 20k (200k) random traces over arbitrary bytes are run on the real class and TLC compares every return value, exception class "
            "and (position, remaining, mode) of every live reader after every call",
            "TLC; negative get_bytes lengths not driven (outside the property)", "DESIGN.md 6 C05"),
    "C06": ("TLA+ composition of writer (sanitising) and chunked reader with read plans; TLC exhaustive over bounded chunk lists x plans; "
            "observed executions judged by TLC with NoBreak/PrefixCorrect/SurplusZero/NonInterference",
            "EoChunks.tla: chunks of typed fields, plans = prefix + surplus reads; NonInterference is stated as: what a plan reads in chunk c "
            "equals what it reads when chunk c is written and read alone; TLC checks the model on all bounded chunk lists and plans; the "
            "real writer/reader run the same behaviours and random larger ones (8 chunks x 6 fields), in context and alone, and TLC "
            "evaluates the four predicates on the observations",
            "TLC; padded strings / raw bytes in chunks excluded as the property's own justification requires", "DESIGN.md 6 C06"),
    "C09": ("TLA+ writer state machine with outcome; TLC exhaustive over call histories; traces observed on EoWriter judged by TLC with "
            "Atomic/ExactLength/SanitisedNoFF/ExactImage/RefusedExactlyWhenInvalid",
            "EoWriter.tla: one action per public call, refusal = ValueError with contents unchanged; TLC checks that the model satisfies the "
            "C09 predicates at every step of every history of depth 2 (3) over 98 calls (limits, limit+1, 2^31, 253^4+1, strings with "
            "y-diaeresis/unencodable chars, all length/padded combinations, mode toggles); the same and random histories run on the real "
            "class and TLC evaluates the predicates on the observed bytes and outcomes",
            "TLC; negative integers are outside the property", "DESIGN.md 6 C09"),
    "C01": ("TLA+ small-step serializer and deserializer composed (ProtoSer;ProtoDeser); TLC checks RoundTrip on the model and emits every "
            "(program, object); real generated code round-trips each; verdict on the observation",
            "MC_Proto mode rt: TLC explores every object of the lossless bounded domains for every wire-unambiguous program of the corpus and "
            "proves PRoundTrip of the model (a wrong 'wire-unambiguous' tag is found here); each object is built with the generated "
            "constructor, serialized and deserialized by the generated code with fresh writer/reader: equal field by field, all bytes "
            "consumed, byte_size equal to the byte count at every nesting level; random larger objects are classified by the model (mode givenrt) "
            "and round-tripped; programs whose field names are the generated code's own identifiers must round-trip like any other",
            "the corpus (hand-written + SpecGen-generated programs) bounds 'all programs'; Appendix A of DESIGN.md is the reading of the XML semantics",
            "DESIGN.md 6 C01"),
    "C02": ("TLA+ small-step serializer over the EoWriter spec (one action per XML instruction step, lazy value choice); TLC enumerates "
            "objects and predicts bytes; replay on the code the real generator emits, in two spellings of the boolean defaults",
            "ProtoSer.tla is an independent statement of the eo-protocol serialization semantics; TLC explores every object of the bounded "
            "value domains (boundary ints, y-diaeresis/tilde/unencodable strings, unrecognised enum ordinals, absent optionals, every switch "
            "case) in both entry modes for each program; the generated serialize()/write() must produce exactly the model's bytes, and "
            "family()/action() the declared ones",
            "the corpus bounds 'all programs'; TLC semantics", "DESIGN.md 6 C02"),
    "C03": ("TLA+ small-step deserializer over the EoReader spec; TLC enumerates all single-fault corruptions of valid serializations and all "
            "short hostile byte strings, checks InBounds/OnlyDocumentedError and termination (liveness under weak fairness); replay on the "
            "generated deserializers",
            "ProtoDeser.tla states the reading rules; MC_Proto modes hostile/bytes produce (program, bytes) pairs with the object, exception "
            "class and position the rules prescribe; the generated deserialize must produce the same (ValueError only where the model has "
            "the negative-length failure); a per-case alarm turns non-termination into a finding",
            "the corpus bounds 'all programs'; array loops beyond 64 iterations are outside the bound", "DESIGN.md 6 C03"),
    "C15": ("TLA+ frames record the mode found and restore it on Return and on frame-by-frame Unwind (try/finally); TLC checks the action "
            "properties with injected failures at every early primitive call; replay with failing writer/reader and wrapped generated "
            "methods that log entry/exit modes",
            "PModeRestored/PDModeRestored are action properties of every frame exit in ProtoSer/ProtoDeser; MC_Proto explores both entry modes "
            "x bounded values / corrupted bytes x a failure injected at each of the first 5 (6) primitive calls; the same behaviours run on "
            "the generated code with a writer/reader that fails at that call; every generated serialize/deserialize (nested structs, array "
            "elements, case data) is wrapped to record mode at entry and exit and is also entered directly with either mode; the mode in force "
            "at every primitive call is compared with the model's log; verdict: exit mode = entry mode for every call, declared mode at every primitive",
            "the corpus bounds 'all programs'; faults are injected at primitive reader/writer calls", "DESIGN.md 6 C15"),
    "C16": ("TLA+ enumeration of all single declaration-violating changes of valid objects (ProtoInvalid) serialized by ProtoSer in "
            "given-object mode; invariant Refused; replay of every violated object on the generated code",
            "MC_Proto mode invalid: for every valid object TLC chose, every violating variant (None for required, wrong fixed/padded length, "
            "array count +-1, more than the length field carries, integers/enum values/array elements at and above the limit, case data of "
            "another case, None where a body is declared) at any nesting depth is run through the model (never completes) and through the "
            "generated serialize, which must raise SerializationError or ValueError",
            "the corpus bounds 'all programs'; one recorded known finding (F5: data for a value that selects no case)", "DESIGN.md 6 C16"),
    "C19": ("TLA+ list of every public mutation target of an instance (ProtoObject) and histories of attempted mutations (action property "
            "PImmutable); replay on constructed and deserialized real instances with projection and re-serialization after every action",
            "MC_Proto mode mut: all histories of 2 (3) actions over assignment to every field/byte_size/nested field, in-place mutation of "
            "array fields and later mutation of the caller's lists; on the real instance assignments must raise AttributeError, array fields "
            "must be tuples, projection and serialized bytes must never change - also when another instance of the class comes into being "
            "(ProtoObject!Others), when a packet is sent through write(), and when the caller changes its list before the instance was ever read",
            "one representative instance per program (including empty arrays)", "DESIGN.md 6 C19"),
    "C17": ("TLA+ grammar rules as a context walk (ProtoGrammar) + a TLA+ builder machine (SpecGen) that composes valid and violating "
            "templates freely at every placement; TLC enumerates and classifies programs; the real generator must reject every ill-formed one",
            "ProtoGrammar.tla states rules R2-R12, R15, R16 over the context (chunked / optional reached / dummy reached / names / length "
            "fields) with fresh name scopes for cases, resets at breaks and merging after switches; SpecGen.tla enumerates every program of "
            "<= 2 (3) instructions at depth <= 2 over 29 templates, deep programs over the core templates (5 instructions) and simulated "
            "larger ones; each ill-formed program (as struct and as packet) goes to the real ProtocolCodeGenerator in its own tree and must "
            "raise; 22 declaration-level violations (R1 R13 R14 R17, second files) come from a fixed catalogue",
            "the template alphabet bounds the quantifier; R11 uses the builder's label of the hardcoded text", "DESIGN.md 6 C17"),
    "C18": ("TLA+ scheduling model of the generator (GenPipeline: discovery in any order, imports collected in any order, canonical "
            "rendering); TLC checks OrderIndependent/Complete over all schedules and emits discovery orders; the real generator is run under "
            "those orders x hash seeds x repeated / pre-populated runs and digests compared; exports checked in a fresh interpreter",
            "three spec trees with cross-file references (upstream-like, references between sibling directories, SpecGen programs spread over "
            "files); os.walk is forced into TLC-chosen orders, PYTHONHASHSEED varied, output compared by sha256 per path and the path set "
            "against the model's; every declared class must be the same object in its defining module, its public subpackage, "
            "eolib.protocol and eolib; every well-formed SpecGen program must be accepted by the generator; a generator instance reused after a "
            "failed run, and a run that follows the generation of a decoy tree in the same process, must reproduce the fresh output",
            "hash-seed nondeterminism is sampled; content compared by digest", "DESIGN.md 6 C18"),
    "C20": ("TLA+ model of CPython's import mechanics (PyImport: sys.modules, namespaces, executing-body stack, star-import copying, "
            "__all__, parent attribute binding) run by TLC for every first-import choice on the layout extracted from the real files; fresh "
            "interpreters observed; TLC evaluates PathsResolve/OneObject on the observed namespaces",
            "for three spec trees (incl. type names chosen against the package's module names) the package layout is extracted with ast, TLC "
            "executes the import machine for every module a fresh interpreter may import first, real interpreters do the same imports and dump "
            "their namespaces; the verdict is PyImport's predicates evaluated by TLC on the observed namespaces, and the model's own verdict "
            "must coincide (else machinery error); the hand-written API documented at the pinned commit (23 names) may not be hidden by a module-level __all__",
            "the import model covers what eolib uses (from-imports, star-imports, __all__, module-level defs); CPython 3.12", "DESIGN.md 6 C20"),
}

PLANNED = {}


def main():
    props = [json.loads(l) for l in (VERIF / "properties.jsonl").read_text().splitlines() if l.strip()]
    checks = []
    na = []
    for p in props:
        pid = p["id"]
        if pid in CHECKS:
            tech, text, note, ref = CHECKS[pid]
            checks.append({
                "property_id": pid,
                "quick_cmd": f"./check {pid} --tier quick",
                "thorough_cmd": f"./check {pid} --tier thorough",
                "evidence_file": f"/verif/evidence/{pid}.json",
                "replay_cmd_template": f"./check {pid} --replay {{path}}",
                "engine": "tlc",
                "level_claimed": {"category": "model_checking", "text": text, "design_ref": ref},
                "level_note": note,
                "technique": tech,
            })
        else:
            na.append({"property_id": pid,
                       "reason": PLANNED.get(pid, "check not built yet in this session; design in DESIGN.md section 6 (not a claim of inapplicability)")})
    man = {
        "version": 1,
        "setup_cmd": "./setup.sh",
        "hooks": {
            "guard": "EOLIB_VERIF",
            "enable": "no source hooks: every action is observed through the public API, subclass wrappers created by the harness, a "
                      "substituted random source, a permuted os.walk and PYTHONHASHSEED (DESIGN.md section 1)",
            "baseline_off_cmd": "cd /repo && /venv/bin/python -m pytest -ra -q -p no:cacheprovider --timeout=900 --continue-on-collection-errors",
            "source_commits": [],
            "add_only": True,
        },
        "engines": [
            {"name": "tlc", "path": "/verif/spec", "serves_properties": sorted(CHECKS),
             "kind_free_text": "explicit TLA+ specifications checked by TLC (and Apalache for scalar whole-range theorems), bound to the "
                               "code by replay of TLC behaviours and by TLC validation of recorded traces/tables"},
        ],
        "checks": checks,
        "not_applicable": na,
        "notes": "All checks: ./check <ID> --tier quick|thorough [--selftest] [--replay f]; exit 0 held / 1 VIOLATION / 2 machinery failure. "
                 "Growth check outside the listed properties: ./check SESSION (spec/EoSession.tla replayed through the real primitives; evidence in "
                 "evidence_growth/). known_findings.json: one recorded finding (C16, F5) and seven fixed: lines for the fix: commits made to /repo. "
                 "seeded/: 80 confirmed breaking changes with RESULTS.tsv. See DESIGN.md section 10.",
    }
    (VERIF / "MANIFEST.json").write_text(json.dumps(man, indent=1) + "\n")
    print(f"MANIFEST.json: {len(checks)} checks, {len(na)} not claimed")


if __name__ == "__main__":
    main()
