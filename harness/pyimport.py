"""Extracts the package layout of eolib (hand-written + generated files) with `ast` for spec/PyImport.tla."""
from __future__ import annotations

import ast
import json
from pathlib import Path


def _resolve(cur_pkg: str, level: int, module):
    if level == 0:
        return module or ""
    parts = cur_pkg.split(".")
    base = parts[:len(parts) - (level - 1)]
    return ".".join(base + ([module] if module else []))


def extract(src: Path):
    """Returns mods: {name: {parent, leaf, stmts, hasall, all, generated}}."""
    root = src / "eolib"
    mods = {}
    for f in sorted(root.rglob("*.py")):
        rel = f.relative_to(src).with_suffix("")
        parts = list(rel.parts)
        is_pkg = parts[-1] == "__init__"
        if is_pkg:
            parts = parts[:-1]
        name = ".".join(parts)
        cur_pkg = name if is_pkg else ".".join(parts[:-1])
        tree = ast.parse(f.read_text())
        stmts = []
        hasall, allnames = False, []
        for node in tree.body:
            if isinstance(node, ast.ImportFrom):
                target = _resolve(cur_pkg, node.level, node.module)
                if any(a.name == "*" for a in node.names):
                    stmts.append({"k": "star", "target": target, "names": [], "name": ""})
                else:
                    # `from x import a as b`: only plain names occur in this package; aliases are bound under the alias
                    stmts.append({"k": "from", "target": target, "names": [a.name for a in node.names], "name": ""})
            elif isinstance(node, ast.Import):
                for a in node.names:
                    stmts.append({"k": "import", "target": a.name, "names": [], "name": ""})
            elif isinstance(node, (ast.ClassDef, ast.FunctionDef, ast.AsyncFunctionDef)):
                stmts.append({"k": "def", "target": "", "names": [], "name": node.name})
            elif isinstance(node, (ast.Assign, ast.AnnAssign)):
                targets = node.targets if isinstance(node, ast.Assign) else [node.target]
                for t in targets:
                    if isinstance(t, ast.Name):
                        if t.id == "__all__":
                            try:
                                allnames = list(ast.literal_eval(node.value))
                                hasall = True
                                stmts.append({"k": "all", "target": "", "names": allnames, "name": ""})
                            except Exception:
                                src_txt = ast.unparse(node.value)
                                if "globals()" in src_txt and "ModuleType" in src_txt and "startswith('_')" in src_txt:
                                    stmts.append({"k": "all", "target": "nomodules", "names": [], "name": ""})
                                    hasall = True
                                else:
                                    # computed in some other way: the names are taken from a fresh interpreter (observe_all) and the
                                    # assignment is modelled at this position with that list
                                    stmts.append({"k": "all", "target": "observed", "names": [], "name": ""})
                                    hasall = True
                        elif not (isinstance(node, ast.AnnAssign) and node.value is None):
                            stmts.append({"k": "def", "target": "", "names": [], "name": t.id})
        mods[name] = {"parent": ".".join(parts[:-1]), "leaf": parts[-1], "stmts": stmts, "hasall": hasall, "all": allnames,
                      "generated": "_generated" in parts, "is_pkg": is_pkg}
    # namespace packages (directories without __init__.py, e.g. _generated when the root has no protocol.xml)
    for name in list(mods):
        p = mods[name]["parent"]
        while p and p not in mods:
            mods[p] = {"parent": ".".join(p.split(".")[:-1]), "leaf": p.split(".")[-1], "stmts": [], "hasall": False, "all": [], "generated": "_generated" in p, "is_pkg": True}
            p = mods[p]["parent"]
    return mods


def observe_all(src: Path, mods, python):
    """Fill in __all__ lists that are computed in ways the extractor cannot read, by asking a fresh interpreter."""
    import subprocess
    need = [m for m, d in mods.items() if any(st["k"] == "all" and st["target"] == "observed" for st in d["stmts"])]
    if not need:
        return
    code = ("import sys, json, importlib; sys.dont_write_bytecode=True; sys.path.insert(0, sys.argv[1]); out={}\n"
            "for m in sys.argv[2:]:\n"
            "    try:\n        out[m] = list(getattr(importlib.import_module(m), '__all__', []))\n"
            "    except Exception as e:\n        out[m] = None\n"
            "print(json.dumps(out))")
    p = subprocess.run([python, "-B", "-c", code, str(src)] + need, capture_output=True, text=True, timeout=300)
    got = json.loads(p.stdout.strip().splitlines()[-1]) if p.returncode == 0 and p.stdout.strip() else {}
    for m in need:
        names = got.get(m) or []
        for st in mods[m]["stmts"]:
            if st["k"] == "all" and st["target"] == "observed":
                st["names"] = [n for n in names]
                st["target"] = ""
        mods[m]["all"] = list(names)


def doc_paths(mods):
    """Documented modules: hand-written, no underscore component."""
    return sorted(m for m, d in mods.items() if not d["generated"] and not any(c.startswith("_") for c in m.split(".")))


# The hand-written public API documented at the pinned commit (docs/gen_ref_pages.py renders one reference page per module, mkdocstrings
# lists these members).  A module-level __all__ may hide NEW helpers, it must not make one of these names disappear.
DOCUMENTED = {"AccountReplySequenceStart", "CHAR_MAX", "EoReader", "EoWriter", "INT_MAX", "InitSequenceStart", "Packet", "PacketSequencer",
              "PingSequenceStart", "ProtocolEnumMeta", "SHORT_MAX", "SequenceStart", "SerializationError", "THREE_MAX", "decode_number",
              "decode_string", "deinterleave", "encode_number", "encode_string", "flip_msb", "interleave", "server_verification_hash",
              "swap_multiples"}


def exports(mods):
    """(name, home subpackage, defining module) for every public definition a subpackage exports, and every generated class."""
    out = []
    for m, d in sorted(mods.items()):
        comps = m.split(".")
        if d["is_pkg"] or m == "eolib":
            continue
        defs = [s["name"] for s in d["stmts"] if s["k"] == "def" and not s["name"].startswith("_")]
        if d["hasall"]:
            defs = [x for x in defs if x in d["all"] or (x in DOCUMENTED and not d["generated"])]
        if d["generated"]:
            # home = the public counterpart of the generated package
            pub = ".".join(c for c in comps[:-1] if c != "_generated")
            for x in defs:
                out.append({"name": x, "home": pub, "def": m})        # every class a generated module defines
        elif not any(c.startswith("_") for c in comps):
            for x in defs:
                out.append({"name": x, "home": ".".join(comps[:-1]), "def": m})
    return out


def tla(x):
    if isinstance(x, bool):
        return "TRUE" if x else "FALSE"
    if isinstance(x, dict):
        return "[" + ", ".join(f"{k} |-> {tla(v)}" for k, v in x.items()) + "]"
    if isinstance(x, (list, tuple)):
        return "<<" + ", ".join(tla(v) for v in x) + ">>"
    if isinstance(x, str):
        return json.dumps(x)
    return str(x)


def import_data_module(mods, first):
    ms = []
    private = set()
    for name, d in mods.items():
        rec = {"parent": d["parent"], "leaf": d["leaf"], "stmts": d["stmts"], "hasall": d["hasall"], "all": d["all"]}
        ms.append(f"({json.dumps(name)} :> {tla(rec)})")
        for s in d["stmts"]:
            for nm in [s["name"]] + s["names"]:
                if nm.startswith("_"):
                    private.add(nm)
        if d["leaf"].startswith("_"):
            private.add(d["leaf"])
    private.add("__all__")
    body = "---- MODULE ImportData ----\nEXTENDS TLC\n"
    body += "IMods == " + "\n  @@ ".join(ms) + "\n"
    body += "IPrivate == {" + ", ".join(json.dumps(p) for p in sorted(private)) + "}\n"
    body += "IFirst == {" + ", ".join(json.dumps(f) for f in first) + "}\n"
    body += "IDocPaths == {" + ", ".join(json.dumps(p) for p in doc_paths(mods)) + "}\n"
    body += "IExports == " + tla(exports(mods)) + "\n====\n"
    return body
