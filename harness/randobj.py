"""Random (larger) objects and byte strings for the generated-code checks - inputs only (pattern V): what the model says
about them is computed by TLC (MC_Proto modes "given" / "givenbytes"), never here."""
from __future__ import annotations

from .common import limbs
from .wire import POOLS, str_codes

NONE = "None"
LIMITS = {"byte": 256, "char": 253, "short": 253 ** 2, "three": 253 ** 3, "int": 253 ** 4}


def _int(rng, t):
    lim = LIMITS[t]
    # (253^2, 253^3 and neighbours: numbers whose middle base-253 digits are zero)
    return rng.choice([0, 1, lim - 1, lim - 2, 252, 253, 254, 255, 64009, 64010, 64009 + 5 * 253, 16194277, 16194277 + 7, 16194277 + 64009 * 3,
                       rng.randrange(lim), rng.randrange(lim), rng.randrange(lim)]) % lim


def _string(rng, n=None, maxlen=12, lossless=False):
    if n is None:
        n = rng.randrange(0, maxlen + 1)
    if lossless:
        out = [rng.choice(b"abcdefgXYZ 0189_-OP}\"!") for _ in range(n)]       # (O P } \" ! sit on the boundaries of the encoded-string inversion)
        # y-diaeresis is lossy only "where sanitised or padded" (C01's quantifier): it is generated, and the MODEL says whether the
        # object it lands in still belongs to the quantifier (mode givenrt)
        if n and lossless != "plain" and rng.random() < 0.3:
            out[rng.randrange(n)] = 255
            if rng.random() < 0.3:
                out[rng.randrange(n)] = 255
        return out
    pool = rng.choice(POOLS) if rng.random() < 0.7 else "".join(POOLS)
    return str_codes("".join(rng.choice(pool) for _ in range(n)))


class Gen:
    def __init__(self, types, rng, lossless=False):
        self.types = types
        self.rng = rng
        self.boundary = False      # next object: every byte/char length field carries as many items as it can
        self.lossless = lossless   # plain ASCII strings, nothing present behind a missing optional (C01's quantifier; the model has the last word)

    def wire_int(self, i):
        t = i["type"]
        if i["over"]:
            return i["over"]
        if t == "bool":
            return "char"
        if t in LIMITS:
            return t
        return self.types[t]["utype"]

    def value(self, i, count=None):
        rng, t = self.rng, i["type"]
        if t in LIMITS:
            return limbs(_int(rng, t))
        if t == "bool":
            return rng.random() < 0.5
        if t in ("string", "encoded_string"):
            if i["tag"] == "field" and i["len"]["k"] == "lit":
                n = i["len"]["n"]
                return _string(rng, rng.randrange(0, n + 1) if i["padded"] else n, lossless=("plain" if self.lossless and self.boundary else self.lossless))
            if count is not None:
                return _string(rng, count, lossless=("plain" if self.lossless and self.boundary else self.lossless))
            return _string(rng, lossless=("plain" if self.lossless and self.boundary else self.lossless))
        if t == "blob":
            return [rng.choice([0, 1, 254, 255, rng.randrange(256)]) for _ in range(rng.randrange(0, 6))]
        ty = self.types[t]
        if ty["kind"] == "enum":
            ords = [v["ord"] for v in ty["values"]]
            lim = LIMITS[self.wire_int(i)]
            return rng.choice(ords + [limbs(rng.randrange(lim))])
        return self.obj(ty["code"], t)

    def obj(self, code, cls):
        o = {"_t": cls}
        self._fill(code, cls, o, {})
        return o

    def _fill(self, code, cls, o, lens):
        rng = self.rng
        for i in code:
            t = i["tag"]
            if t == "length":
                lim = LIMITS[i["type"]] - 1 + i["offset"]
                if i["optional"] and rng.random() < 0.25 and i["offset"] <= 0:
                    lens[i["name"]] = 0
                    continue
                if i["type"] in ("byte", "char") and (self.boundary or rng.random() < 0.05) and 0 < lim <= 300:
                    lens[i["name"]] = rng.choice([lim, lim - 1, lim - 2])           # as many as the length field can carry
                elif i["type"] in ("short", "three", "int") and self.boundary:
                    lens[i["name"]] = max(i["offset"], 0) + rng.choice([258, 259, 300])     # beyond one byte (and beyond the interned small integers)
                else:
                    lens[i["name"]] = max(i["offset"], 0) + rng.randrange(0, min(7, max(1, lim - max(i["offset"], 0) + 1)))
            elif t == "field" and i["name"]:
                if i["hard"] != NONE:
                    o[i["name"]] = i["hard"]
                elif i["optional"] and (rng.random() < 0.3 or (self.lossless and lens.get("_missing"))):
                    o[i["name"]] = NONE
                    lens["_missing"] = True
                else:
                    cnt = lens.get(i["len"]["ref"]) if i["len"]["k"] == "ref" else None
                    o[i["name"]] = self.value(i, cnt)
            elif t == "array":
                if i["optional"] and (rng.random() < 0.3 or (self.lossless and lens.get("_missing"))):
                    o[i["name"]] = NONE
                    lens["_missing"] = True
                else:
                    n = i["len"]["n"] if i["len"]["k"] == "lit" else lens.get(i["len"]["ref"], rng.randrange(0, 7)) if i["len"]["k"] == "ref" else rng.randrange(0, 7)
                    if i["optional"] and i["len"]["k"] != "lit" and rng.random() < 0.3:
                        n = 0          # present but empty (in the middle of an optional chain this is not an "empty tail")
                        if i["len"]["k"] == "ref":
                            lens[i["len"]["ref"]] = 0
                    e = dict(i, tag="elem", len={"k": "none", "n": 0, "ref": ""})
                    o[i["name"]] = [self.value(e) for _ in range(n)]
            elif t == "break":
                lens.pop("_missing", None)
            elif t == "chunked":
                self._fill(i["body"], cls, o, lens)
            elif t == "switch":
                v = o.get(i["field"])
                sel = None
                if v is not None and v != NONE:
                    for c in i["cases"]:
                        if c["default"]:
                            continue
                        cv = c["val"]["n"] if c["val"]["k"] == "num" else next((m["ord"] for m in self.types[i["ftype"]]["values"] if m["name"] == c["val"]["name"]), None)
                        if cv == v:
                            sel = c
                            break
                if sel is None:
                    sel = next((c for c in i["cases"] if c["default"]), None)
                if sel is None or not sel["body"] or rng.random() < 0.03:
                    o[i["field"] + "_data"] = NONE
                else:
                    o[i["field"] + "_data"] = self.obj(sel["body"], cls + "." + sel["cname"])


def mutate_bytes(rng, data):
    data = list(data)
    r = rng.random()
    if r < 0.25 and data:
        return data[:rng.randrange(len(data))]
    if r < 0.55 and data:
        k = rng.randrange(len(data))
        data[k] = rng.choice([0, 1, 254, 255, rng.randrange(256)])
        return data
    if r < 0.75:
        k = rng.randrange(len(data) + 1)
        return data[:k] + [rng.choice([0, 254, 255, rng.randrange(256)])] + data[k:]
    if r < 0.9:
        return data + [rng.choice([0, 1, 254, 255]) for _ in range(rng.randrange(1, 4))]
    return [rng.choice([0, 1, 2, 254, 255, rng.randrange(256)]) for _ in range(rng.randrange(0, 40))]
