"""Programs from the TLA+ builder machine (spec/SpecGen.tla) and bulk runs of the real generator on them."""
from __future__ import annotations

import json
import multiprocessing as mp
import shutil
from pathlib import Path

from .common import MachineryError, NCPU, dump_json, require, run_tlc
from .corpus import fix_cnames, library, render_enum, render_program
from .gen import generate, write_tree

CFG = """CONSTANTS
  TYPES <- LibTypes
  MAXINSTR = {n}
  MAXDEPTH = {d}
  VIOLATING = {v}
  CORE = {core}
  EXTENDED = {ext}
SPECIFICATION Spec
CHECK_DEADLOCK FALSE
INVARIANT Emit
"""


def programs(tmp: Path, n=2, depth=2, violating=True, simulate=None, seed=0, timeout=1800, core=False, extended=False):
    """Returns (records [{code, violations, degenerate}], TLCResult)."""
    tf = tmp / "types.json"
    dump_json(tf, library())
    cfg = tmp / f"sg_{n}_{depth}_{int(violating)}_{int(core)}_{int(extended)}.cfg"
    cfg.write_text(CFG.format(n=n, d=depth, v="TRUE" if violating else "FALSE", core="TRUE" if core else "FALSE", ext="TRUE" if extended else "FALSE"))
    kw = {}
    if simulate:
        kw = {"simulate": f"num={simulate}", "depth": 40, "extra": ["-seed", str(seed)]}
    r = run_tlc("MC_SpecGen", str(cfg), env={"TYPES_FILE": str(tf)}, workers=8 if not simulate else 1, timeout=timeout, **kw)
    require(r.ok or simulate, "SpecGen run failed:\n" + r.tail())
    seen = {}
    for p in r.printed:
        if isinstance(p, dict) and "code" in p:
            fix_cnames(p["code"])
            seen[json.dumps(p["code"], sort_keys=True)] = p
    return list(seen.values()), r


def lib_files():
    files = {}
    for name, t in library().items():
        d = t.get("dir", "net")
        if t["kind"] == "enum":
            files[d] = files.get(d, "") + render_enum(name, t)
        else:
            files[d] = files.get(d, "") + render_program({"name": name, "kind": "struct", "code": t["code"]})
    return files


_SRC = None


def _try(args):
    idx, xml_body, d, base = args
    root = Path(base) / f"t{idx}"
    files = lib_files()
    files[d] = files.get(d, "") + xml_body
    write_tree(root / "xml", files)
    e = generate(_SRC, root / "xml", root / "out")
    shutil.rmtree(root, ignore_errors=True)
    return idx, (None if e is None else f"{type(e).__name__}: {e}")


def generator_verdicts(src: Path, tmp: Path, bodies, procs=NCPU):
    """bodies: list of (xml body, dir).  Runs the real generator on library + body, each in its own tree.
    Returns list of None (accepted) | 'ExcClass: message' (rejected)."""
    global _SRC
    _SRC = src
    from .gen import generator_class
    generator_class(src)           # import in the parent so that forked workers share it
    ctx = mp.get_context("fork")
    tasks = [(i, b, d, str(tmp)) for i, (b, d) in enumerate(bodies)]
    out = [None] * len(tasks)
    with ctx.Pool(procs) as pool:
        for i, v in pool.imap_unordered(_try, tasks, chunksize=16):
            out[i] = v
    return out
