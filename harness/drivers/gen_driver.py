"""Runs the real generator once (or twice) under a given directory-enumeration order; prints {path: sha256} as JSON.
usage: gen_driver.py <src> <xml_root> <out_dir> <order.json> [repeat | reuse | decoy | locale | dotroot]
  reuse: ONE generator instance first runs while a file of the tree is ill-formed (and fails), then again after the file is repaired
  decoy: another instance has, in the same process, just generated a tree with the same type names but different enum ordinals
order.json: list of spec directories ("" for the root) in the order they are to be discovered.  Standalone."""
import contextlib
import hashlib
import io
import json
import os
import sys
from pathlib import Path


def main():
    src, xml_root, out_dir, order_file = sys.argv[1:5]
    mode = sys.argv[5] if len(sys.argv) > 5 else "1"
    repeat = int(mode) if mode.isdigit() else 1
    order = json.load(open(order_file))
    sys.dont_write_bytecode = True
    sys.path.insert(0, src)
    import protocol_code_generator.generate.code_generator as cg
    real_walk = os.walk
    root = Path(xml_root).as_posix()

    def rank(path):
        rel = os.path.relpath(path, root).replace(os.sep, "/")
        rel = "" if rel == "." else rel
        best = len(order) + 1
        for i, d in enumerate(order):
            if d == rel or d.startswith(rel + "/"):
                best = min(best, i)
        return best

    def walk(top, *a, **k):
        for r, dirs, files in real_walk(top, *a, **k):
            dirs.sort(key=lambda d: (rank(os.path.join(r, d)), d))
            yield r, dirs, files

    class FakeOs:
        def __getattr__(self, name):
            return walk if name == "walk" else getattr(os, name)
    cg.os = FakeOs()
    res = {"exc": "", "files": {}, "warmup_exc": ""}
    try:
        if mode == "reuse":
            import shutil
            inst = cg.ProtocolCodeGenerator(Path(xml_root))
            victim = sorted(Path(xml_root).rglob("protocol.xml"))[0]
            good = victim.read_text()
            victim.write_text(good.replace("</protocol>", '<struct name="ZzPoison"><field name="x" type="NoSuchType"/></struct>\n</protocol>'))
            try:
                with contextlib.redirect_stdout(io.StringIO()):
                    inst.generate(Path(out_dir))
            except Exception as e:
                res["warmup_exc"] = type(e).__name__
            finally:
                victim.write_text(good)
            shutil.rmtree(out_dir, ignore_errors=True)
            with contextlib.redirect_stdout(io.StringIO()):
                inst.generate(Path(out_dir))
        elif mode == "dotroot":
            out_abs = Path(out_dir).resolve()
            os.chdir(xml_root)
            with contextlib.redirect_stdout(io.StringIO()):
                cg.ProtocolCodeGenerator(Path(".")).generate(out_abs)
        elif mode == "decoy":
            import re
            import shutil
            import tempfile
            droot = Path(tempfile.mkdtemp(prefix="decoy-", dir=str(Path(out_dir).parent)))
            try:
                shutil.copytree(xml_root, droot / "xml")
                for f in (droot / "xml").rglob("protocol.xml"):
                    f.write_text(re.sub(r"(<value name=\"[^\"]*\">)(\d+)(</value>)", lambda m: m.group(1) + str(int(m.group(2)) + 1) + m.group(3), f.read_text()))
                try:
                    with contextlib.redirect_stdout(io.StringIO()):
                        cg.ProtocolCodeGenerator(droot / "xml").generate(droot / "out")
                except Exception as e:
                    res["warmup_exc"] = type(e).__name__
            finally:
                shutil.rmtree(droot, ignore_errors=True)
            with contextlib.redirect_stdout(io.StringIO()):
                cg.ProtocolCodeGenerator(Path(xml_root)).generate(Path(out_dir))
        else:
            for _ in range(repeat):
                with contextlib.redirect_stdout(io.StringIO()):
                    cg.ProtocolCodeGenerator(Path(xml_root)).generate(Path(out_dir))
    except Exception as e:
        res["exc"] = f"{type(e).__name__}: {e}"
    for p in sorted(Path(out_dir).rglob("*")):
        if p.is_file() and "__pycache__" not in p.parts:
            res["files"][p.relative_to(out_dir).as_posix()] = hashlib.sha256(p.read_bytes()).hexdigest()
    print(json.dumps(res))


if __name__ == "__main__":
    main()
