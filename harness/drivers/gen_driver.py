"""Runs the real generator once (or twice) under a given directory-enumeration order; prints {path: sha256} as JSON.
usage: gen_driver.py <src> <xml_root> <out_dir> <order.json> [repeat]
order.json: list of spec directories ("" for the root) in the order they are to be discovered.  Standalone."""
import contextlib
import hashlib
import io
import json
import os
import sys
from pathlib import Path


def main():
    src, xml_root, out_dir, order_file = sys.argv[1:5]
    repeat = int(sys.argv[5]) if len(sys.argv) > 5 else 1
    order = json.load(open(order_file))
    sys.dont_write_bytecode = True
    sys.path.insert(0, src)
    import protocol_code_generator.generate.code_generator as cg
    real_walk = os.walk
    root = Path(xml_root).as_posix()

    def rank(path):
        rel = os.path.relpath(path, root).replace(os.sep, "/")
        rel = "" if rel == "." else rel
        best = len(order) + 1
        for i, d in enumerate(order):
            if d == rel or d.startswith(rel + "/"):
                best = min(best, i)
        return best

    def walk(top, *a, **k):
        for r, dirs, files in real_walk(top, *a, **k):
            dirs.sort(key=lambda d: (rank(os.path.join(r, d)), d))
            yield r, dirs, files

    class FakeOs:
        def __getattr__(self, name):
            return walk if name == "walk" else getattr(os, name)
    cg.os = FakeOs()
    res = {"exc": "", "files": {}}
    try:
        for _ in range(repeat):
            with contextlib.redirect_stdout(io.StringIO()):
                cg.ProtocolCodeGenerator(Path(xml_root)).generate(Path(out_dir))
    except Exception as e:
        res["exc"] = f"{type(e).__name__}: {e}"
    for p in sorted(Path(out_dir).rglob("*")):
        if p.is_file() and "__pycache__" not in p.parts:
            res["files"][p.relative_to(out_dir).as_posix()] = hashlib.sha256(p.read_bytes()).hexdigest()
    print(json.dumps(res))


if __name__ == "__main__":
    main()
