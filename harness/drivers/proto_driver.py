"""Executes serialize / deserialize cases on the classes the real generator emitted, in a fresh interpreter.
usage: proto_driver.py <src> <job.json> <out.json>         (standalone: no harness imports)

job = {"types": {...}, "progs": [...], "cases": [case...]}
case kinds
  ser : {kind, prog, san0, fuel, obj, salt}        -> {ctor_exc, exc, bytes, san_end, calls:[[cls, entry, exit, raised]], family, action}
  de  : {kind, prog, data, ch0, dfuel}             -> {exc, obj, pos, ch_end, remaining, calls}
  rt  : {kind, prog, obj, salt}                    -> ser + de of the produced bytes with fresh writer/reader
  mut : {kind, prog, obj, salt, actions:[...]}     -> immutability history (C19)
Values follow the spec conventions: numbers [hi, lo], strings lists of Char codes (256 = unencodable), None = "None",
objects dicts keyed by field name with "_t" (class tag) and, when deserialized, "_size".
"""
import importlib
import json
import sys
import traceback

NONE = "None"
INTS = ("byte", "char", "short", "three", "int")
UNENC_REPS = ["Ā", "\u0085", "\u0081", "�", "\U0001F600", "́", "\u0080", "\u009f", "₭"]


def snake(name):
    out = ""
    for i, c in enumerate(name):
        if i > 0 and c.isupper() and ((i + 1 < len(name) and not name[i + 1].isupper()) or name[i - 1].islower()):
            out += "_"
        out += c.lower()
    return out


def unl(p):
    return p[0] * 65536 + p[1]


def lim(n):
    return [n >> 16, n & 0xFFFF]


def codes_str(codes, salt=0):
    out = []
    for i, c in enumerate(codes):
        out.append(UNENC_REPS[(i + salt) % len(UNENC_REPS)] if c == 256 else bytes([c]).decode("cp1252"))
    return "".join(out)


def str_codes(s):
    out = []
    for ch in s:
        try:
            out.append(ch.encode("cp1252")[0])
        except UnicodeEncodeError:
            out.append(256)
    return out


class World:
    def __init__(self, src, job):
        self.types = job["types"]
        self.progs = {p["name"]: p for p in job["progs"]}
        sys.dont_write_bytecode = True
        sys.path.insert(0, src)
        self.eolib = importlib.import_module("eolib")
        self.writer_mod = importlib.import_module("eolib.data.eo_writer")
        self.reader_mod = importlib.import_module("eolib.data.eo_reader")
        self.SerializationError = importlib.import_module("eolib.protocol.serialization_error").SerializationError
        self.calls = []
        self._wrapped = set()

    # ---- classes
    def top_class(self, name):
        d = self.progs[name]["dir"] if name in self.progs else self.types[name]["dir"]
        mod = importlib.import_module("eolib.protocol._generated." + (d.replace("/", ".") + "." if d else "") + snake(name))
        cls = getattr(mod, name)
        self.wrap(cls)
        return cls

    def cls_of(self, tag):
        parts = tag.split(".")
        c = self.top_class(parts[0])
        for p in parts[1:]:
            c = getattr(c, p)
        return c

    def wrap(self, cls):
        """Log the mode at entry and exit of every generated serialize/deserialize (C15 observation)."""
        if cls in self._wrapped or "serialize" not in cls.__dict__:
            return
        self._wrapped.add(cls)
        world = self
        ser, de = cls.__dict__["serialize"].__func__, cls.__dict__["deserialize"].__func__

        def serialize(writer, data, _ser=ser, _q=cls.__qualname__):
            entry = bool(writer.string_sanitization_mode)
            rec = [_q, "ser", entry, None, False]
            world.calls.append(rec)
            try:
                return _ser(writer, data)
            except BaseException:
                rec[4] = True
                raise
            finally:
                rec[3] = bool(writer.string_sanitization_mode)

        def deserialize(reader, _de=de, _q=cls.__qualname__):
            entry = bool(reader.chunked_reading_mode)
            rec = [_q, "de", entry, None, False]
            world.calls.append(rec)
            try:
                return _de(reader)
            except BaseException:
                rec[4] = True
                raise
            finally:
                rec[3] = bool(reader.chunked_reading_mode)

        cls.serialize = staticmethod(serialize)
        cls.deserialize = staticmethod(deserialize)
        for v in list(cls.__dict__.values()):
            if isinstance(v, type) and "serialize" in v.__dict__:
                self.wrap(v)

    def code_of(self, tag):
        parts = tag.split(".")
        code = self.progs[parts[0]]["code"] if parts[0] in self.progs else self.types[parts[0]]["code"]
        for p in parts[1:]:
            code = self._find_case(code, p)
        return code

    def _find_case(self, code, cname):
        for i in code:
            if i["tag"] == "chunked":
                r = self._find_case(i["body"], cname)
                if r is not None:
                    return r
            elif i["tag"] == "switch":
                for c in i["cases"]:
                    if c["cname"] == cname:
                        return c["body"]
        return None

    # ---- spec value -> python value
    def conv(self, i, v, salt):
        if v == NONE:
            return None
        t = i["type"]
        if t in INTS:
            return unl(v)
        if t == "bool":
            return bool(v)
        if t in ("string", "encoded_string"):
            return codes_str(v, salt)
        if t == "blob":
            return bytes(v)
        ty = self.types[t]
        if ty["kind"] == "enum":
            return unl(v) if getattr(self, "enum_as_int", False) else self.top_class(t)(unl(v))
        return self.build(v, salt)

    def build(self, obj, salt=0):
        tag = obj["_t"]
        kw = {}
        self._collect(self.code_of(tag), obj, kw, salt)
        return self.cls_of(tag)(**kw)

    def _collect(self, code, obj, kw, salt):
        for i in code:
            t = i["tag"]
            if t == "field" and i["name"]:
                if i["name"] in obj:
                    kw[i["name"]] = self.conv(i, obj[i["name"]], salt)
            elif t == "array":
                if i["name"] in obj:
                    v = obj[i["name"]]
                    kw[i["name"]] = None if v == NONE else [self.conv(i, x, salt) for x in v]
            elif t == "chunked":
                self._collect(i["body"], obj, kw, salt)
            elif t == "switch":
                dn = i["field"] + "_data"
                if dn in obj:
                    d = obj[dn]
                    kw[dn] = None if d == NONE else self.build(d, salt)

    # ---- python value -> spec value
    def pconv(self, i, v):
        try:
            return self._pconv(i, v)
        except Exception as e:      # a value of a kind the declaration does not allow (only a corrupted instance can hold one)
            return ["UNEXPECTED", type(v).__name__, type(e).__name__]

    def _pconv(self, i, v):
        if v is None:
            return NONE
        t = i["type"]
        if t in INTS:
            return lim(int(v))
        if t == "bool":
            return bool(v)
        if t in ("string", "encoded_string"):
            return str_codes(v)
        if t == "blob":
            return list(bytes(v))
        ty = self.types[t]
        if ty["kind"] == "enum":
            import enum as _enum
            if isinstance(v, _enum.Enum) and type(v).__name__ != t:
                # a value of ANOTHER enum class sits in this field (equal as an integer, but not what the declaration says)
                return ["UNEXPECTED", f"{type(v).__name__}.{v.name}", "field of type " + t]
            return lim(int(v))
        return self.project(v)

    def project(self, o, with_size=True):
        tag = type(o).__qualname__
        out = {"_t": tag}
        if with_size:
            out["_size"] = o.byte_size
        self._project(self.code_of(tag), o, out, with_size)
        return out

    def _project(self, code, o, out, with_size):
        for i in code:
            t = i["tag"]
            if t == "field" and i["name"]:
                out[i["name"]] = self.pconv(i, getattr(o, i["name"]))
            elif t == "array":
                v = getattr(o, i["name"])
                out[i["name"]] = NONE if v is None else [self.pconv(i, x) for x in v]
                out["_kind_" + i["name"]] = type(v).__name__
            elif t == "chunked":
                self._project(i["body"], o, out, with_size)
            elif t == "switch":
                d = getattr(o, i["field"] + "_data")
                out[i["field"] + "_data"] = NONE if d is None else self.project(d, with_size)

    def exc_name(self, e):
        if getattr(e, "_injected", False):
            return "Fault"
        if isinstance(e, self.SerializationError):
            return "SerializationError"
        if isinstance(e, ValueError):
            return "ValueError"
        return type(e).__name__

    # ---- fault-injecting writer / reader
    def faulty_writer(self, fuel):
        """EoWriter subclass that logs the sanitisation mode at every outermost primitive call (self.wmodes) and, if fuel >= 0,
        raises instead of making the (fuel+1)-th such call."""
        W = self.writer_mod.EoWriter
        state = {"left": fuel, "depth": 0}
        modes = self.wmodes = []
        prim = ("add_byte", "add_bytes", "add_char", "add_short", "add_three", "add_int", "add_string", "add_fixed_string",
                "add_encoded_string", "add_fixed_encoded_string")

        class FW(W):
            pass
        for name in prim:
            def mk(name=name):
                base = getattr(W, name)
                def f(self, *a, **k):
                    if state["depth"] > 0:                      # a primitive implemented on top of another one (add_string -> add_bytes)
                        return base(self, *a, **k)
                    modes.append(bool(self.string_sanitization_mode))
                    if state["left"] == 0:
                        state["left"] = -1
                        e = RuntimeError("injected fault")
                        e._injected = True
                        raise e
                    if state["left"] > 0:
                        state["left"] -= 1
                    state["depth"] += 1
                    try:
                        return base(self, *a, **k)
                    finally:
                        state["depth"] -= 1
                return f
            setattr(FW, name, mk())
        fw = FW()
        fw._fault_state = state
        return fw

    def faulty_reader(self, data, fuel):
        R = self.reader_mod.EoReader
        state = {"left": fuel, "depth": 0}
        modes = self.rmodes = []
        prim = ("get_byte", "get_bytes", "get_char", "get_short", "get_three", "get_int", "get_string", "get_fixed_string",
                "get_encoded_string", "get_fixed_encoded_string", "next_chunk")

        class FR(R):
            pass
        for name in prim:
            def mk(name=name):
                base = getattr(R, name)
                def f(self, *a, **k):
                    if state["depth"] > 0:
                        return base(self, *a, **k)
                    modes.append(bool(self.chunked_reading_mode))
                    if state["left"] == 0:
                        state["left"] = -1
                        e = RuntimeError("injected fault")
                        e._injected = True
                        raise e
                    if state["left"] > 0:
                        state["left"] -= 1
                    state["depth"] += 1
                    try:
                        return base(self, *a, **k)
                    finally:
                        state["depth"] -= 1
                return f
            setattr(FR, name, mk())
        return FR(data)

    # ---- cases
    def run_ser(self, c):
        out = {"ctor_exc": "", "exc": "", "bytes": [], "san_end": None, "calls": []}
        cls = self.top_class(c["prog"])
        self.enum_as_int = bool(c.get("enum_as_int"))       # enum-typed fields given as plain integers (the constructors accept them)
        try:
            obj = self.build(c["obj"], c.get("salt", 0))
        except Exception as e:
            out["ctor_exc"] = type(e).__name__ + ": " + str(e)[:100]
            return out
        finally:
            self.enum_as_int = False
        mark = 0
        if c.get("prefail") is not None:
            # the writer has been used before: an earlier serialize() of the same object failed part-way (caught by the caller)
            w = self.faulty_writer(c["prefail"])
            w.string_sanitization_mode = bool(c.get("san0", False))
            try:
                cls.serialize(w, obj)
            except Exception:
                pass
            mark = len(w.to_bytearray())
            w._fault_state["left"] = -1             # (the first call may have finished before the fault was due)
            del self.wmodes[:]
            out["mode_after_failed_call"] = bool(w.string_sanitization_mode)
        else:
            w = self.faulty_writer(c.get("fuel", -1))
            w.string_sanitization_mode = bool(c.get("san0", False))
        self.calls = []
        try:
            if c.get("via_write") and hasattr(obj, "write"):
                obj.write(w)
            else:
                cls.serialize(w, obj)
        except Exception as e:
            out["exc"] = self.exc_name(e)
            out["exc_msg"] = str(e)[:100]
        out["bytes"] = list(w.to_bytearray())[mark:]
        out["san_end"] = bool(w.string_sanitization_mode)
        if c.get("direct_nested") and not out["exc"]:
            # every nested generated object (struct, array element, case data) is also a public class of its own: enter its
            # serialize / deserialize DIRECTLY with either mode (the wrappers log entry and exit of each of these calls too)
            self.direct_nested(obj)
        out["calls"] = self.calls
        out["modes"] = list(self.wmodes)
        p = self.progs.get(c["prog"])
        if p and p["kind"] == "packet":
            try:
                out["family"] = cls.family().name
                out["action"] = cls.action().name
            except Exception as e:
                out["family"] = out["action"] = "EXC " + type(e).__name__
        return out

    def window_readers(self, data):
        """Readers whose bytes are a WINDOW of a larger buffer (a memoryview slice, a slice() of another reader): what lies outside
        the window is not part of the input."""
        pre, post = b"\xff\x01\xfe", b"\xff\x02"
        data = bytes(data)
        buf = bytearray(pre + data + post)
        yield "memoryview window", self.reader_mod.EoReader(memoryview(buf)[len(pre):len(pre) + len(data)])
        yield "slice of a larger reader", self.reader_mod.EoReader(pre + data + post).slice(len(pre), len(data))

    def window_check(self, cls, data, ch0, ref):
        """ref = (exc, obj, pos, remaining) observed with a reader over exactly these bytes; returns '' or a description."""
        for how, r2 in self.window_readers(data):
            r2.chunked_reading_mode = bool(ch0)
            got = ["", NONE, None, None]
            try:
                got[1] = self.project(cls.deserialize(r2))
            except (TimeoutError, MemoryError):
                raise
            except Exception as e:
                got[0] = self.exc_name(e)
            got[2], got[3] = r2.position, r2.remaining
            if got[0] != ref[0] or got[1] != ref[1] or got[2] != ref[2] or got[3] != ref[3]:
                return f"through a {how}: exc={got[0]!r} pos={got[2]} remaining={got[3]} obj={json.dumps(got[1])[:200]}; through a reader over the bytes alone: exc={ref[0]!r} pos={ref[2]} remaining={ref[3]} obj={json.dumps(ref[1])[:200]}"
        return ""

    def run_de(self, c):
        out = {"exc": "", "obj": NONE, "pos": None, "ch_end": None, "remaining": None, "calls": []}
        cls = self.top_class(c["prog"])
        r = self.faulty_reader(bytes(c["data"]), c.get("dfuel", -1))
        r.chunked_reading_mode = bool(c.get("ch0", False))
        self.calls = []
        try:
            o = cls.deserialize(r)
            out["obj"] = self.project(o)
        except (TimeoutError, MemoryError):
            raise
        except Exception as e:
            out["exc"] = self.exc_name(e)
            out["exc_msg"] = str(e)[:100]
        out["pos"] = r.position
        out["ch_end"] = bool(r.chunked_reading_mode)
        out["remaining"] = r.remaining
        out["calls"] = self.calls
        out["modes"] = list(self.rmodes)
        if c.get("dfuel", -1) == -1 and c.get("windows"):
            out["window_differs"] = self.window_check(cls, c["data"], c.get("ch0", False), (out["exc"], out["obj"], out["pos"], out["remaining"]))
        return out

    def run_rt(self, c):
        s = self.run_ser(dict(c, kind="ser", san0=False, fuel=-1))
        out = {"ser": s, "de": None}
        if not s["ctor_exc"] and not s["exc"]:
            cls = self.top_class(c["prog"])
            r = self.reader_mod.EoReader(bytes(s["bytes"]))
            d = {"exc": "", "obj": NONE, "pos": None, "remaining": None, "nested_size_mismatch": []}
            try:
                o = cls.deserialize(r)
                d["obj"] = self.project(o)
                d["nested_size_mismatch"] = self.nested_sizes(o)
            except (TimeoutError, MemoryError):
                raise
            except Exception as e:
                d["exc"] = self.exc_name(e)
                d["exc_msg"] = str(e)[:100]
            d["pos"] = r.position
            d["remaining"] = r.remaining
            d["window_differs"] = self.window_check(cls, s["bytes"], False, (d["exc"], d["obj"], d["pos"], d["remaining"]))
            out["de"] = d
        return out

    def direct_nested(self, o):
        seen = []

        def visit(x, top):
            if x is None or isinstance(x, (int, str, bytes, bytearray, bool)):
                return
            if isinstance(x, (tuple, list)):
                for y in x[:2]:
                    visit(y, False)
                return
            if hasattr(type(x), "serialize") and hasattr(x, "byte_size"):
                if not top and type(x) not in seen:
                    seen.append(type(x))
                    own = None
                    for mode in (False, True):
                        w2 = self.writer_mod.EoWriter()
                        w2.string_sanitization_mode = mode
                        try:
                            type(x).serialize(w2, x)
                            own = bytes(w2.to_bytearray())
                        except Exception:
                            pass
                    if own is not None:
                        for data in (own, own[:-1], own + b"\xff\x01"):
                            for mode in (False, True):
                                r2 = self.reader_mod.EoReader(data)
                                r2.chunked_reading_mode = mode
                                try:
                                    type(x).deserialize(r2)
                                except Exception:
                                    pass
                for name in dir(type(x)):
                    if isinstance(getattr(type(x), name, None), property) and name != "byte_size":
                        visit(getattr(x, name), False)
        visit(o, True)

    def nested_sizes(self, o):
        """byte_size of every nested generated object vs the number of bytes that object serializes to on its own."""
        bad = []

        def visit(x):
            if x is None or isinstance(x, (int, str, bytes, bytearray, bool)):
                return
            if isinstance(x, (tuple, list)):
                for y in x:
                    visit(y)
                return
            if hasattr(type(x), "serialize") and hasattr(x, "byte_size"):
                w = self.writer_mod.EoWriter()
                try:
                    type(x).serialize(w, x)
                    if len(w) != x.byte_size:
                        bad.append([type(x).__qualname__, x.byte_size, len(w)])
                except Exception as e:
                    bad.append([type(x).__qualname__, x.byte_size, "EXC " + type(e).__name__])
                for name in dir(type(x)):
                    if isinstance(getattr(type(x), name, None), property) and name != "byte_size":
                        visit(getattr(x, name))
        visit(o)
        return bad

    def run_mut(self, c):
        """C19: history of attempted mutations; after every action the instance is projected and serialized."""
        out = {"ctor_exc": "", "steps": []}
        cls = self.top_class(c["prog"])
        salt = c.get("salt", 0)
        args = {}
        try:
            srcbuf = None
            if c.get("from_bytes") is not None:
                srcbuf = bytearray(c["from_bytes"])           # a buffer the caller owns (a receive buffer is reused)
                r = self.reader_mod.EoReader(srcbuf)
                obj = cls.deserialize(r)
            else:
                tag = c["obj"]["_t"]
                self._collect(self.code_of(tag), c["obj"], args, salt)
                kind = c.get("arg_kind", "list")
                for k_, v_ in list(args.items()):
                    if isinstance(v_, list):
                        if kind == "bytearray" and all(isinstance(x, int) and not isinstance(x, bool) and 0 <= x < 256 for x in v_):
                            args[k_] = bytearray(v_)
                        elif kind == "tuple":
                            args[k_] = tuple(v_)
                        elif kind == "sequence":
                            args[k_] = _Seq(v_)            # a user-defined (hashable) sequence object backed by a list the caller keeps changing
                        elif kind == "generator":
                            args[k_] = (x for x in list(v_))
                obj = self.cls_of(tag)(**args)
        except Exception as e:
            out["ctor_exc"] = type(e).__name__ + ": " + str(e)[:100]
            return out

        def snap(obj=None):
            obj = the_obj if obj is None else obj
            before = self.project(obj)                 # what the instance looks like BEFORE it is serialized (again)
            rep0 = repr(obj)
            w = self.writer_mod.EoWriter()
            try:
                cls.serialize(w, obj)
                ser = list(w.to_bytearray())
            except Exception as e:
                ser = "EXC " + type(e).__name__
            via_write = None
            if hasattr(obj, "write") and type(obj) is cls:
                # a packet is normally sent through its write() method: same bytes, and the instance stays what it was
                w3 = self.writer_mod.EoWriter()
                try:
                    obj.write(w3)
                    via_write = list(w3.to_bytearray())
                except Exception as e:
                    via_write = "EXC " + type(e).__name__
            twice = None
            if isinstance(ser, list):
                # "serializing the same instance twice yields identical bytes" - also when both go to the same writer
                w4 = self.writer_mod.EoWriter()
                try:
                    w4.add_byte(9)
                    cls.serialize(w4, obj)
                    n1 = len(w4.to_bytearray())
                    cls.serialize(w4, obj)
                    b4 = list(w4.to_bytearray())
                    twice = [b4[1:n1], b4[n1:]]
                except Exception as e:
                    twice = "EXC " + type(e).__name__
            return {"proj": before, "ser": ser, "proj_after_serialize": self.project(obj), "repr_changed_by_serialize": repr(obj) != rep0,
                    "write_differs": via_write is not None and via_write != ser,
                    "same_writer_twice": "" if twice is None or (isinstance(twice, list) and twice[0] == ser and twice[1] == ser) else (twice if isinstance(twice, str) else f"into a writer that already holds a byte: first {twice[0]}, then {twice[1]}; into a fresh writer {ser}")}
        the_obj = obj
        if c.get("blind") and c.get("from_bytes") is None:
            # the instance is NOT looked at before the history starts: the baseline is a twin built from a private copy of the arguments
            import copy
            out["initial"] = snap(self.cls_of(c["obj"]["_t"])(**copy.deepcopy(args)))
        else:
            out["initial"] = snap()
        for a in c["actions"]:
            st = {"action": a, "exc": ""}
            try:
                target = obj
                for nm in a.get("path", []):
                    target = getattr(target, nm)
                    if isinstance(target, tuple):
                        target = target[0]
                if a["op"] == "setattr":
                    try:
                        setattr(target, a["name"], a.get("value", 1))
                    except Exception as e:
                        st["exc"] = "AttributeError" if isinstance(e, AttributeError) else type(e).__name__
                elif a["op"] == "mutate_arg":
                    lst = args.get(a["name"])
                    if isinstance(lst, _Seq):
                        lst = lst.items
                    st["arg_type"] = type(lst).__name__
                    if isinstance(lst, (list, bytearray)):
                        if a["how"] == "append":
                            lst.append(lst[0] if lst else (7 if isinstance(lst, bytearray) else None))
                        elif a["how"] == "clear":
                            lst.clear()
                        elif a["how"] == "reverse":
                            lst.reverse()
                elif a["op"] == "mutate_field":
                    v = getattr(target, a["name"])
                    st["field_type"] = type(v).__name__
                    try:
                        if a["how"] == "append":
                            v.append(v[0] if v else None)
                        elif a["how"] == "clear":
                            v.clear()
                        elif a["how"] == "setitem":
                            v[0] = v[-1]
                    except Exception as e:
                        st["exc"] = type(e).__name__
                elif a["op"] == "serialize":
                    pass
                elif a["op"] == "other":
                    # another instance of the same class comes into being; whether that succeeds is not this property's business
                    try:
                        if a["how"] == "clobber_source":
                            if srcbuf is not None:
                                for k_ in range(len(srcbuf)):
                                    srcbuf[k_] ^= 0x5A
                                srcbuf.extend(b"\x01\x02")
                        elif a["how"] == "construct":
                            if c.get("from_bytes") is None:
                                a2 = {}
                                self._collect(self.code_of(c["obj"]["_t"]), c["obj"], a2, salt)
                                self.cls_of(c["obj"]["_t"])(**a2)
                            else:
                                cls.deserialize(self.reader_mod.EoReader(bytes(c["from_bytes"])))
                        else:
                            base_ = out["initial"]["ser"] if isinstance(out["initial"]["ser"], list) else []
                            data_ = base_ + [1, 2] if a["how"] == "longer" else base_[:-1]
                            cls.deserialize(self.reader_mod.EoReader(bytes(data_)))
                    except Exception as e:
                        st["other_exc"] = type(e).__name__
            except Exception as e:
                st["exc"] = "HARNESS " + type(e).__name__ + str(e)[:60]
            st.update(snap())
            out["steps"].append(st)
        return out


class _Seq:
    """A caller-side sequence type that is not a list: iterable, sized, indexable - and hashable, like every user-defined class."""

    def __init__(self, items):
        self.items = list(items)

    def __iter__(self):
        return iter(self.items)

    def __len__(self):
        return len(self.items)

    def __getitem__(self, k):
        return self.items[k]


def main():
    src, inp, outp = sys.argv[1:4]
    job = json.load(open(inp))
    res = {"import_error": "", "results": []}
    try:
        world = World(src, job)
    except Exception:
        res["import_error"] = traceback.format_exc()[-1500:]
        json.dump(res, open(outp, "w"))
        return
    import signal
    try:
        import resource
        # a runaway loop in the code under test (a deserializer that stops consuming) must end in a MemoryError inside the case, not in
        # the kernel killing this process
        resource.setrlimit(resource.RLIMIT_AS, (2 << 30, 2 << 30))
    except Exception:
        pass

    def on_alarm(signum, frame):
        raise TimeoutError("case did not terminate within 20 s")
    signal.signal(signal.SIGALRM, on_alarm)
    timeouts = {}
    for c in job["cases"]:
        try:
            fn = {"ser": world.run_ser, "de": world.run_de, "rt": world.run_rt, "mut": world.run_mut}[c["kind"]]
            if sum(timeouts.values()) >= 3:
                # generated code has already hung three times in this process: do not wait for it again
                raise TimeoutError("not run: earlier cases in this process did not terminate")
            signal.alarm(20)
            try:
                res["results"].append(fn(c))
            finally:
                signal.alarm(0)
        except (TimeoutError, MemoryError):
            # (a runaway loop ends either way: by the alarm or by the address-space limit)
            timeouts[c.get("prog")] = timeouts.get(c.get("prog"), 0) + 1
            res["results"].append({"harness_error": traceback.format_exc()[-800:], "timeout": True})
        except Exception:
            res["results"].append({"harness_error": traceback.format_exc()[-800:]})
    json.dump(res, open(outp, "w"))


if __name__ == "__main__":
    main()
