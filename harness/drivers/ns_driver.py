"""Fresh interpreter: import <first>, then eolib; dump every eolib module's namespace.
usage: ns_driver.py <src> <first>     Standalone.  Output: {"error": "", "ns": {module: {name: ["mod", m] | ["obj", module, qualname] | ["val", token]}}}"""
import importlib
import json
import sys
import types


def main():
    src, first = sys.argv[1:3]
    sys.dont_write_bytecode = True
    sys.path.insert(0, src)
    out = {"error": "", "first": first, "ns": {}}
    try:
        importlib.import_module(first)
        importlib.import_module("eolib")
    except Exception as e:
        out["error"] = f"{type(e).__name__}: {e}"
    for name, mod in list(sys.modules.items()):
        if not (name == "eolib" or name.startswith("eolib.")) or mod is None:
            continue
        d = {}
        for k, v in list(vars(mod).items()):
            if k.startswith("__") and k.endswith("__"):
                continue
            if isinstance(v, types.ModuleType):
                d[k] = ["mod", v.__name__]
            elif isinstance(v, type) or isinstance(v, types.FunctionType):
                d[k] = ["obj", getattr(v, "__module__", "?"), getattr(v, "__qualname__", k)]
            else:
                d[k] = ["val", type(v).__name__ + ":" + str(id(v))]
        out["ns"][name] = d
    print(json.dumps(out))


if __name__ == "__main__":
    main()
