"""Runs construction histories against real protocol enums (hand-written + generated) under the calling
interpreter; prints one JSON line of observations.  usage: enum_driver.py <src> <input.json> <output.json>
Standalone (no harness imports) so that it runs under any interpreter."""
import importlib
import json
import sys
import types


def main():
    src, inp, outp = sys.argv[1:4]
    job = json.load(open(inp))
    sys.dont_write_bytecode = True
    sys.path.insert(0, src)
    for name, sub in (("eolib", "eolib"), ("eolib.protocol", "eolib/protocol"), ("eolib.protocol._generated", "eolib/protocol/_generated"),
                      ("eolib.protocol._generated.net", "eolib/protocol/_generated/net")):
        m = types.ModuleType(name)
        m.__path__ = [f"{src}/{sub}"]
        sys.modules[name] = m
    classes = {}
    for ename, decl in job["enums"].items():
        if decl["how"] == "hand":
            body = "\n".join(f"    {m['name']} = {m['ord']}" for m in decl["members"])
            # an unrelated enum class of the same qualified name has been declared and used earlier in this process
            # (other members for the same ordinals): classes are independent of their namesakes
            decoy = "\n".join(f"    {m['name']}_ = {m['ord'] + 1}" for m in decl["members"]) + "\n    Zero_ = " + str(min(m["ord"] for m in decl["members"]))
            head = "from enum import IntEnum\nfrom eolib.protocol.protocol_enum_meta import ProtocolEnumMeta\n"
            dns = {}
            exec(head + f"class {ename}(IntEnum, metaclass=ProtocolEnumMeta):\n{decoy}\n", dns)
            for m in decl["members"]:
                dns[ename](m["ord"]), dns[ename](m["ord"] + 1), dns[ename](m["ord"] + 1000)
            ns = {}
            exec(head + f"class {ename}(IntEnum, metaclass=ProtocolEnumMeta):\n{body}\n", ns)
            classes[ename] = ns[ename]
        else:
            mod = importlib.import_module("eolib.protocol._generated.net." + decl["module"])
            # ... for a generated enum the namesake is the class of the same module before a reload
            old = getattr(mod, ename)
            for m in decl["members"]:
                old(m["ord"]), old(m["ord"] + 1000)
            mod = importlib.reload(mod)
            classes[ename] = getattr(mod, ename)

    def tables():
        t = {}
        for en, c in classes.items():
            t[en] = {"list": [m.name for m in c], "members": list(c.__members__.keys()),
                     "v2m": sorted(int(k) for k in c._value2member_map_.keys()), "len": len(c)}
        return t

    out = []
    for hist in job["histories"]:
        steps = []
        for ev in hist:
            cls = classes[ev["cls"]]
            n = ev["n"]
            o = {}
            try:
                x = cls(n)
                o["exc"] = ""
                o["type"] = type(x).__name__
                o["type_is_cls"] = type(x) is cls
                o["name"] = x.name
                o["value"] = int(x.value) if isinstance(x.value, int) else repr(x.value)
                o["int"] = int(x)
                o["eq"] = bool(x == n) and bool(n == x)
                o["hash_eq"] = hash(x) == hash(n)
                o["is_declared_member"] = any(x is m for m in cls)
                o["same_again"] = cls(n) is x
                # the documented way to construct takes the integer as `value`: positionally or by keyword
                try:
                    y = cls(value=n)
                    o["kw"] = "ok" if (y is x or (type(y) is type(x) and y == x and y.name == x.name and any(y is m for m in cls) == any(x is m for m in cls))) else "differs: " + repr(y)
                except Exception as e:  # noqa
                    o["kw"] = "raised " + type(e).__name__
                o["is_attr"] = (getattr(cls, x.name, None) is x) if isinstance(x.name, str) else False
                # other argument forms of the same integer: a bool (an int subclass) and a value of ANOTHER protocol enum
                alt = []
                if n in (0, 1):
                    alt.append(("bool", bool(n)))
                for en2, c2 in classes.items():
                    if c2 is not cls:
                        try:
                            alt.append((en2, c2(n)))
                        except Exception:
                            pass
                        break
                o["alt"] = "ok"
                for how, arg in alt:
                    try:
                        z = cls(arg)
                        same = (z is x) or (type(z) is type(x) and type(z) is cls and int(z) == int(x) and z.name == x.name and any(z is m for m in cls) == any(x is m for m in cls))
                        if not same:
                            o["alt"] = f"{cls.__name__}(<{how} {arg!r}>) gave {z!r} of type {type(z).__name__} (name {getattr(z, 'name', None)!r}), {cls.__name__}({n}) gave {x!r} (name {x.name!r})"
                            break
                    except Exception as e:  # noqa
                        o["alt"] = f"{cls.__name__}(<{how} {arg!r}>) raised {type(e).__name__}"
                        break
                try:
                    o["contains"] = (n in cls)
                except TypeError:
                    o["contains"] = None           # 3.11: int-in-Enum raises
            except Exception as e:  # noqa
                o = {"exc": type(e).__name__, "msg": str(e)[:80]}
            o["tables"] = tables()
            steps.append(o)
        out.append(steps)
    # ---- the generated enums as fields of a generated struct: read with Enum(reader.get_*()), written with int(value)
    problems = []
    if job.get("user_fields"):
        try:
            um = importlib.import_module("eolib.protocol._generated.net.enum_user")
            W = importlib.import_module("eolib.data.eo_writer").EoWriter
            R = importlib.import_module("eolib.data.eo_reader").EoReader
            User = um.EnumUser
            limit = {"byte": 256, "char": 253, "short": 253 ** 2}
            for variant in range(6):
                w = W()
                expect = []
                for fname, en, wire, count in job["user_fields"]:
                    ords = [m["ord"] for m in job["enums"][en]["members"] if 0 <= m["ord"] < limit[wire]]
                    vals = []
                    for k in range(count):
                        n = ords[(variant + k) % len(ords)] if (variant + k) % 3 else (max(ords) + 5 + variant) % limit[wire]
                        getattr(w, "add_" + wire)(n)
                        vals.append(n)
                    expect.append((fname, en, vals, count))
                data = bytes(w.to_bytearray())
                obj = User.deserialize(R(data))
                for fname, en, vals, count in expect:
                    got = getattr(obj, fname)
                    got = list(got) if count > 1 else [got]
                    cls = getattr(importlib.import_module("eolib.protocol._generated.net." + job["enums"][en]["module"]), en)
                    for n, g in zip(vals, got):
                        declared = [m for m in cls if int(m) == n]
                        if type(g) is not cls or int(g) != n or (declared and g is not declared[0]) or (not declared and g.name != f"Unrecognized({n})"):
                            problems.append(f"EnumUser.{fname}: ordinal {n} read as {g!r} of type {type(g).__name__} (enum {en})")
                w2 = W()
                User.serialize(w2, obj)
                if bytes(w2.to_bytearray()) != data:
                    problems.append(f"EnumUser: read-then-write changed the bytes: {list(data)} -> {list(w2.to_bytearray())}")
        except Exception as e:  # noqa
            problems.append(f"EnumUser could not be used: {type(e).__name__}: {e}")
    json.dump({"python": sys.version.split()[0], "initial_tables": job.get("_", None), "results": out, "user_problems": problems}, open(outp, "w"))


if __name__ == "__main__":
    main()
