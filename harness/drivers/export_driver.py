"""Imports the package in a fresh interpreter and reports where every declared class can be found.
usage: export_driver.py <src> <decls.json> [first_import]   decls: [{name, dir}]   Standalone."""
import importlib
import json
import sys


def snake(name):
    out = ""
    for i, c in enumerate(name):
        if i > 0 and c.isupper() and ((i + 1 < len(name) and not name[i + 1].isupper()) or name[i - 1].islower()):
            out += "_"
        out += c.lower()
    return out


def main():
    src, decls_file = sys.argv[1:3]
    first = sys.argv[3] if len(sys.argv) > 3 else "eolib"
    sys.dont_write_bytecode = True
    sys.path.insert(0, src)
    res = {"import_error": "", "first": first, "classes": []}
    try:
        importlib.import_module(first)
        eolib = importlib.import_module("eolib")
    except Exception as e:
        import traceback
        res["import_error"] = f"{type(e).__name__}: {e}"
        res["trace"] = traceback.format_exc()[-1200:]
        print(json.dumps(res))
        return
    for d in json.load(open(decls_file)):
        name, dr = d["name"], d["dir"]
        rec = {"name": name, "dir": dr, "home": False, "subpackage": False, "protocol": False, "top": False, "err": ""}
        try:
            dots = dr.replace("/", ".")
            mod = importlib.import_module("eolib.protocol._generated." + (dots + "." if dots else "") + snake(name))
            cls = getattr(mod, name)
            rec["home"] = isinstance(cls, type)
            pub = sys.modules.get("eolib.protocol" + ("." + dots if dots else "")) or importlib.import_module("eolib.protocol" + ("." + dots if dots else ""))
            rec["subpackage"] = getattr(pub, name, None) is cls
            rec["protocol"] = getattr(sys.modules["eolib.protocol"], name, None) is cls
            rec["top"] = getattr(eolib, name, None) is cls
        except Exception as e:
            rec["err"] = f"{type(e).__name__}: {e}"
        res["classes"].append(rec)
    print(json.dumps(res))


if __name__ == "__main__":
    main()
