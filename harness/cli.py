"""CLI: ./check <ID> [--tier quick|thorough] [--replay file] [--selftest]"""
from __future__ import annotations

import argparse
import importlib
import os
import sys
import traceback

from .common import MachineryError


def main(argv=None) -> int:
    ap = argparse.ArgumentParser()
    ap.add_argument("prop")
    ap.add_argument("--tier", default=os.environ.get("VERIF_TIER", "quick"), choices=["quick", "thorough"])
    ap.add_argument("--replay", default=None)
    ap.add_argument("--selftest", action="store_true")
    a = ap.parse_args(argv)
    pid = a.prop.upper()
    try:
        mod = importlib.import_module(f"harness.props.{pid.lower()}")
    except ModuleNotFoundError as e:
        print(f"no check for {pid}: {e}", file=sys.stderr)
        return 2
    try:
        if a.replay:
            return mod.replay(a.replay)
        if a.selftest:
            return mod.selftest(a.tier)
        return mod.run(a.tier)
    except MachineryError as e:
        print(f"MACHINERY-ERROR property={pid}: {e}", file=sys.stderr)
        return 2
    except Exception:
        traceback.print_exc()
        print(f"MACHINERY-ERROR property={pid}: unexpected exception in harness", file=sys.stderr)
        return 2


if __name__ == "__main__":
    sys.exit(main())
