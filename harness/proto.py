"""Orchestration for the generator properties: corpus -> TLC (MC_Proto) behaviours -> real generator -> driver."""
from __future__ import annotations

import json
import subprocess
from concurrent.futures import ThreadPoolExecutor
from pathlib import Path

from .common import NCPU, PY, VERIF, MachineryError, dump_json, run_tlc, snapshot_repo
from .corpus import hand_corpus, library, render_enum, render_program
from .gen import generate, write_tree

CFG = """CONSTANTS
  TYPES <- MCTypes
  DOMS <- MCDoms
  MODE = "{mode}"
  NFUEL = {nfuel}
  NDFUEL = {ndfuel}
  EMIT = {emit}
  RICH = {rich}
  MAXBYTES = {maxbytes}
  LIGHT = {light}
  HDEPTH = {hdepth}
  WITHSIZE = {withsize}
  LOOPBOUND = {loopbound}
SPECIFICATION {spec}
CHECK_DEADLOCK FALSE
{props}
"""


def cfg_text(mode, *, nfuel=0, ndfuel=0, emit=False, rich=True, maxbytes=0, withsize=True, invariants=(), properties=(), fair=False, light=False, hdepth=2, loopbound=64):
    props = "".join(f"INVARIANT {i}\n" for i in invariants) + "".join(f"PROPERTY {p}\n" for p in properties)
    if emit:
        props += "INVARIANT Emit\n"
    return CFG.format(mode=mode, nfuel=nfuel, ndfuel=ndfuel, emit="TRUE" if emit else "FALSE", rich="TRUE" if rich else "FALSE",
                      maxbytes=maxbytes, light="TRUE" if light else "FALSE", hdepth=hdepth, withsize="TRUE" if withsize else "FALSE", spec="FairSpec" if fair else "Spec", props=props, loopbound=loopbound)


def corpus_types(progs, types=None):
    t = dict(types if types is not None else library())
    for p in progs:
        if p["kind"] == "struct":
            t[p["name"]] = {"kind": "struct", "dir": p["dir"], "code": p["code"]}
    return t


def write_corpus(path: Path, progs, types):
    dump_json(path, {"types": types, "progs": progs})


def tree_files(progs, types):
    files = {}
    for name, t in types.items():
        if any(p["name"] == name for p in progs):
            continue
        d = t.get("dir", "net")
        if t["kind"] == "enum":
            files[d] = files.get(d, "") + render_enum(name, t)
        else:
            files[d] = files.get(d, "") + render_program({"name": name, "kind": "struct", "code": t["code"]})
    for p in progs:
        files[p["dir"]] = files.get(p["dir"], "") + render_program(p)
    return files


def prepare_world(tmp: Path, progs, types=None):
    """Snapshot /repo, render the corpus, run the real generator.  Returns (src, accepted progs, rejected [(prog, exc)]).
    If the whole tree is rejected, programs are tried one by one so that one rejected program does not hide the others."""
    types = types if types is not None else library()
    src = snapshot_repo(tmp)
    lib_only = {k: v for k, v in types.items()}
    xml = tmp / "xml"
    write_tree(xml, tree_files(progs, lib_only))
    err = generate(src, xml)
    rejected = []
    accepted = list(progs)
    if err is not None:
        accepted = []
        for p in progs:
            x1 = tmp / "xml1"
            if x1.exists():
                import shutil
                shutil.rmtree(x1)
            write_tree(x1, tree_files([p], lib_only))
            e1 = generate(src, x1, tmp / "out1")
            if e1 is None:
                accepted.append(p)
            else:
                rejected.append((p, e1))
        import shutil
        shutil.rmtree(src / "eolib" / "protocol" / "_generated", ignore_errors=True)
        shutil.rmtree(xml)
        write_tree(xml, tree_files(accepted, lib_only))
        err2 = generate(src, xml)
        if err2 is not None:
            raise MachineryError(f"generator rejects the library/skeleton itself: {err2!r}")
    return src, accepted, rejected


def run_driver(src: Path, tmp: Path, progs, types, cases, name="job", timeout=3600):
    job = {"types": corpus_types(progs, types), "progs": progs, "cases": cases}
    jf = tmp / f"{name}.json"
    of = tmp / f"{name}.out.json"
    dump_json(jf, job)
    from .common import die_with_parent
    p = subprocess.run([PY, "-B", str(VERIF / "harness" / "drivers" / "proto_driver.py"), str(src), str(jf), str(of)], preexec_fn=die_with_parent,
                       capture_output=True, text=True, timeout=timeout,
                       env={"PATH": "/usr/local/bin:/usr/bin:/bin", "PYTHONHASHSEED": "0", "PYTHONDONTWRITEBYTECODE": "1"})
    if p.returncode != 0 or not of.exists():
        raise MachineryError(f"proto driver crashed: {p.stderr[-1500:]}")
    res = json.loads(of.read_text())
    return res


def run_drivers_parallel(src, tmp, progs, types, cases, shards=8):
    """Split cases over several driver processes (same generated package)."""
    if len(cases) < 2000 or shards <= 1:
        r = run_driver(src, tmp, progs, types, cases)
        return r["import_error"], r["results"]
    parts = [cases[i::shards] for i in range(shards)]
    with ThreadPoolExecutor(max_workers=shards) as ex:
        outs = list(ex.map(lambda a: run_driver(src, tmp, progs, types, a[1], name=f"job{a[0]}"), enumerate(parts)))
    imp = next((o["import_error"] for o in outs if o["import_error"]), "")
    results = [None] * len(cases)
    for k, o in enumerate(outs):
        if o["results"]:
            results[k::shards] = o["results"]
    return imp, results


def tlc_given(tmp: Path, progs, types, cases, mode, *, tag="given", shards=8, timeout=3600, withsize=True, loopbound=64):
    """Pattern V: MC_Proto in mode 'given' / 'givenbytes' on harness-recorded cases ([p (1-based), obj, san0] / [p, data, ch0]).
    Returns the emitted records ordered like `cases`."""
    (tmp / f"{tag}.cfg").write_text(cfg_text(mode, emit=True, withsize=withsize, loopbound=loopbound, invariants=("PInBounds",) if mode == "givenbytes" else ("SerLeavesModeAsFound",)))
    # (mode "givenrt": serialize the given object, deserialize the bytes; one record per case: the DeRec with rt_ok, or the SerRec if it was refused)
    cf = tmp / f"{tag}_corpus.json"
    write_corpus(cf, progs, corpus_types(progs, types))
    shards = max(1, min(shards, len(cases)))
    parts = [cases[i::shards] for i in range(shards)]

    def one(a):
        k, part = a
        f = tmp / f"{tag}_cases{k}.json"
        dump_json(f, part)
        r = run_tlc("MC_Proto", str(tmp / f"{tag}.cfg"), env={"CORPUS_FILE": str(cf), "CASES_FILE": str(f)}, workers=2, timeout=timeout, heap="4g")
        if not r.ok:
            raise MachineryError(f"MC_Proto/{mode} failed:\n" + r.tail(40))
        got = {p["cid"]: p for p in r.printed if isinstance(p, dict) and "cid" in p}
        if len(got) != len(part):
            raise MachineryError(f"MC_Proto/{mode}: {len(got)} verdicts for {len(part)} cases")
        return [got[j + 1] for j in range(len(part))]
    with ThreadPoolExecutor(max_workers=len(parts)) as ex:
        outs = list(ex.map(one, enumerate(parts)))
    res = [None] * len(cases)
    for k, o in enumerate(outs):
        res[k::shards] = o
    return res


def tlc_proto(tmp: Path, progs, types, cfg: str, *, shards=1, workers=None, timeout=3600, tag="mc", coverage=False):
    """Run MC_Proto on the corpus (optionally sharded by program); returns list of TLCResult."""
    (tmp / f"{tag}.cfg").write_text(cfg)
    shards = max(1, min(shards, len(progs)))
    jobs = []
    for s in range(shards):
        part = progs[s::shards]
        cf = tmp / f"{tag}_corpus{s}.json"
        write_corpus(cf, part, corpus_types(progs, types))
        jobs.append((cf, part))

    def one(j):
        cf, _ = j
        return run_tlc("MC_Proto", str(tmp / f"{tag}.cfg"), env={"CORPUS_FILE": str(cf)}, workers=workers or 1, timeout=timeout,
                       coverage=coverage, heap="6g")
    with ThreadPoolExecutor(max_workers=min(shards, NCPU)) as ex:
        return list(ex.map(one, jobs))


def default_corpus():
    return hand_corpus()


def full_corpus(tmp: Path, tier: str, n_generated=None):
    """Hand-written regression corpus + a seeded sample of the well-formed, non-degenerate programs SpecGen builds
    (<= 3 instructions, nesting depth <= 2).  Generated programs are named G000...; rt=True there means 'to be classified
    by the model' (MC_Proto reports rt_ok per behaviour instead of asserting PRoundTrip)."""
    import random
    from .common import seed
    from .specgen import programs
    progs = hand_corpus()
    rng = random.Random(seed() * 31 + 5)
    k = n_generated if n_generated is not None else (200 if tier == "quick" else 1500)

    def valid_of(recs):
        out = [p for p in recs if not p["violations"] and not p["degenerate"]]
        out.sort(key=lambda p: json.dumps(p["code"], sort_keys=True))
        return out
    if tier == "quick":
        # base alphabet to 3 instructions + extended alphabet (all basic types, overrides, nested chunked structs, ...) to 2
        a = valid_of(programs(tmp, n=3, depth=2, violating=False)[0])
        b = valid_of(programs(tmp, n=2, depth=2, violating=False, extended=True)[0])
        pick = (a if len(a) <= k // 2 else rng.sample(a, k // 2)) + (b if len(b) <= k - k // 2 else rng.sample(b, k - k // 2))
    else:
        a = valid_of(programs(tmp, n=3, depth=2, violating=False, extended=True)[0])
        pick = a if len(a) <= k else rng.sample(a, k)
    for i, p in enumerate(pick):
        progs.append({"name": f"G{i:04d}", "kind": "struct", "dir": "net", "family": "", "action": "", "code": p["code"], "rt": True, "gen": True})
    return progs
