"""Shared driver for C09 / C04 / C06: runs call sequences on the real EoWriter / EoReader, records what was observed
in the value conventions of the specs (DESIGN.md 3.2), and has TLC judge the observations (Bulk_EoWire)."""
from __future__ import annotations

import random

from .common import limbs, unlimbs

UNENC_REPS = ["Ā", "\u0085", "\u0081", "�", "\U0001F600", "́", "\u0080", "\u009f", "₭"]


def char_code(ch: str) -> int:
    try:
        b = ch.encode("cp1252")
        return b[0]
    except UnicodeEncodeError:
        return 256


def str_codes(s: str):
    return [char_code(c) for c in s]


def codes_str(codes, salt=0) -> str:
    out = []
    for i, c in enumerate(codes):
        if c == 256:
            out.append(UNENC_REPS[(i + salt) % len(UNENC_REPS)])
        else:
            out.append(bytes([c]).decode("cp1252"))
    return "".join(out)


def exc_class(e):
    """Exception classes are matched with isinstance semantics against the classes the properties name."""
    for cls in (ValueError, RuntimeError, AttributeError, TypeError):
        if isinstance(e, cls):
            return cls.__name__
    return type(e).__name__


def matching_read(call, is_last):
    op = call["op"]
    if op == "add_byte":
        return {"op": "get_byte"}
    if op == "add_bytes":
        return {"op": "get_bytes", "n": len(call["bytes"])}
    if op in ("add_char", "add_short", "add_three", "add_int"):
        return {"op": "get_" + op[4:]}
    if op == "add_string":
        return {"op": "get_string"} if is_last else {"op": "get_fixed_string", "n": len(call["s"]), "padded": False}
    if op == "add_encoded_string":
        return {"op": "get_encoded_string"} if is_last else {"op": "get_fixed_encoded_string", "n": len(call["s"]), "padded": False}
    if op == "add_fixed_string":
        return {"op": "get_fixed_string", "n": call["len"], "padded": call["padded"]}
    if op == "add_fixed_encoded_string":
        return {"op": "get_fixed_encoded_string", "n": call["len"], "padded": call["padded"]}
    raise ValueError(op)


def do_write(w, call, salt=0):
    op = call["op"]
    if op == "set_san":
        w.string_sanitization_mode = call["b"]
    elif op == "add_bytes":
        if (len(call["bytes"]) + salt) % 2:
            w.add_bytes(bytes(call["bytes"]))
        else:
            # the caller owns this buffer and goes on using it: what was written is a copy
            buf = bytearray(call["bytes"])
            w.add_bytes(buf)
            buf.extend(b"\x07\x07")
            for k in range(len(buf)):
                buf[k] ^= 0x55
    elif op in ("add_byte", "add_char", "add_short", "add_three", "add_int"):
        getattr(w, op)(unlimbs(call["n"]))
    elif op in ("add_string", "add_encoded_string"):
        getattr(w, op)(call.get("_py", None) if "_py" in call else codes_str(call["s"], salt))
    else:
        getattr(w, op)(call.get("_py", None) if "_py" in call else codes_str(call["s"], salt), call["len"], call["padded"])


def do_read(r, call):
    """Returns (ret in spec conventions, exc class name or '')."""
    op = call["op"]
    try:
        if op == "get_byte":
            return r.get_byte(), ""
        if op == "get_bytes":
            return list(r.get_bytes(call["n"])), ""
        if op in ("get_char", "get_short", "get_three", "get_int"):
            return limbs(getattr(r, op)()), ""
        if op in ("get_string", "get_encoded_string"):
            return str_codes(getattr(r, op)()), ""
        if op in ("get_fixed_string", "get_fixed_encoded_string"):
            return str_codes(getattr(r, op)(call["n"], call["padded"])), ""
        if op == "set_chunked":
            r.chunked_reading_mode = call["b"]
            return 0, ""
        if op == "next_chunk":
            r.next_chunk()
            return 0, ""
    except Exception as e:  # class only, never the message; subclasses of the documented classes count as those
        return 0, exc_class(e)
    raise ValueError(op)


def run_wire_trace(EoWriter, EoReader, calls, salt=0):
    """Execute write calls, then the matching read-back; returns the observation row for Bulk_EoWire."""
    w = EoWriter()
    ws = []
    early = early_reader = early_copy = None
    for c in calls:
        if early is None and len(ws) == 1:
            # the output taken now (and a reader over it) must not change, nor get in the way, when more is written
            early = w.to_bytearray()
            early_copy = list(early)
            early_reader = EoReader(early)
        san = bool(w.string_sanitization_mode)
        exc = ""
        try:
            do_write(w, c, salt)
        except Exception as e:
            exc = exc_class(e)
        c = {k: v for k, v in c.items() if not k.startswith("_")}
        ws.append({"call": c, "exc": exc, "after": list(w.to_bytearray()), "san": san})
    acc = [h["call"] for h in ws if h["exc"] == "" and h["call"]["op"] != "set_san"]
    r = EoReader(bytes(w.to_bytearray()))
    rs = []
    for j, c in enumerate(acc):
        rc = matching_read(c, j == len(acc) - 1)
        ret, exc = do_read(r, rc)
        rs.append({"call": rc, "ret": ret, "exc": exc})
    stable = 1 if early is None or list(early) == early_copy else 0
    del early_reader
    return {"w": ws, "r": rs, "rem": r.remaining, "stable": stable}


# ---- random call sequences (pattern V inputs) ----
POOLS = ["abcxyz AZ09", "ÿÿ~~!\"", "\x7f\x00\x1f !\"}P~", "€Œ™éü", "\u0080\u0081\u0085\u009fĀ�", "\U0001F600́中",
         "".join(chr(c) for c in range(0x20, 0x7f))]
LIMITS = {"add_byte": 256, "add_char": 253, "add_short": 253 ** 2, "add_three": 253 ** 3, "add_int": 253 ** 4}


def rand_str(rng, maxlen=12):
    n = rng.randrange(0, maxlen + 1)
    pool = rng.choice(POOLS) if rng.random() < 0.7 else "".join(POOLS)
    return "".join(rng.choice(pool) for _ in range(n))


def rand_int(rng, op):
    lim = LIMITS[op]
    r = rng.random()
    if r < 0.45:
        return rng.randrange(0, lim)
    if r < 0.65:
        return rng.choice([0, 1, lim - 2, lim - 1, lim, lim + 1, 252, 253, 254, 255, 256])
    if r < 0.8:
        return rng.randrange(lim, lim * 2 + 10)
    return rng.choice([2 ** 31, 2 ** 32, 2 ** 40 - 1, 253 ** 4, 253 ** 4 + 253 ** 3, 255 * 253 ** 3 - 1, rng.randrange(0, 2 ** 40)])


def rand_calls(rng, maxlen=30, valid_bias=0.8):
    calls = []
    for _ in range(rng.randrange(1, maxlen + 1)):
        r = rng.random()
        if r < 0.08:
            calls.append({"op": "set_san", "b": rng.random() < 0.5})
        elif r < 0.13:
            calls.append({"op": "add_bytes", "bytes": [rng.choice([0, 1, 254, 255, rng.randrange(256)]) for _ in range(rng.randrange(0, 5))]})
        elif r < 0.45:
            op = rng.choice(list(LIMITS))
            n = rand_int(rng, op)
            if rng.random() < valid_bias:
                n = n % LIMITS[op]
            calls.append({"op": op, "n": limbs(n)})
        elif r < 0.6:
            s = rand_str(rng)
            calls.append({"op": rng.choice(["add_string", "add_encoded_string"]), "s": str_codes(s), "_py": s})
        else:
            s = rand_str(rng, 8)
            if rng.random() < 0.04:
                s = "".join(rng.choice("abcdefgh XYZ.,") for _ in range(rng.choice([255, 256, 257, 258, 300])))      # beyond one byte / the interned small integers
            padded = rng.random() < 0.5
            if rng.random() < valid_bias:
                ln = len(s) + (rng.randrange(0, 5) if padded else 0)
                if padded and rng.random() < 0.06:
                    ln = len(s) + rng.choice([250, 254, 255, 256, 257, rng.randrange(258, 700)])      # more padding than fits one byte-sized count
            else:
                ln = max(0, len(s) + rng.randrange(-3, 4))
            calls.append({"op": rng.choice(["add_fixed_string", "add_fixed_encoded_string"]), "s": str_codes(s), "len": ln, "padded": padded, "_py": s})
    return calls
