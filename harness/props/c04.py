"""C04 - EoWriter output read back by EoReader returns the values written.

Model: spec/EoWire.tla (matching read per write, expected value, lossy-case predicates) over EoWriter/EoReader.
TLC: MC_EoWire (ReadBackOK, ConsumedExactly on every history of depth 2 (3)).  Binding: the same histories and
random ones are executed on the real writer/reader pair; TLC (Bulk_EoWire) evaluates the read-back predicates
on what was observed."""
from __future__ import annotations

import json

from ..common import Verdict
from .. import common
from ._wire_common import C04_CODES, pipeline, replay_case

PROP = "C04"


def run(tier, corrupt=None):
    v = Verdict(PROP, tier)
    cov, findings = pipeline(tier, corrupt)
    for code, key, what, case in findings:
        if code in C04_CODES:
            v.violation(key, what, case)
    return v.finish(cov, ["TLC semantics", "write sequences beyond the exhaustive depth are sampled",
                          "lossy inputs (0xFF in padded strings, '~' in encoded strings) excluded by spec predicates, as the property states"])


def selftest(tier):
    common.SELFTEST = True
    def corrupt(b):
        for row in b["rows"]:
            if row["r"] and isinstance(row["r"][0]["ret"], list) and len(row["r"][0]["ret"]) == 2 and row["r"][0]["call"]["op"] != "get_bytes":
                row["r"][0]["ret"][1] += 1
                return
    rc = run("quick", corrupt)
    print("SELFTEST OK: corrupted read-back rejected" if rc == 1 else "SELFTEST FAILED")
    return 0 if rc == 1 else 2


def replay(path):
    return replay_case(json.loads(open(path).read())["case"])
