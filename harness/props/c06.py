"""C06 - chunk framing isolates chunks from over- and under-reads.

Model: spec/EoChunks.tla over EoWriter/EoReader/EoWire.  TLC: MC_EoChunks - chunk lists grown field by field x read
plans (prefix + surplus reads) with NoBreakInField, PrefixCorrect, SurplusZero, NonInterference (= results of a
chunk equal those of the chunk written and read alone) on the model.  Binding: every TLC behaviour and random larger
ones are executed on the real writer (sanitisation on) and chunked reader, in context and chunk-by-chunk alone; TLC
(Bulk_EoChunks) evaluates the four predicates on the observations."""
from __future__ import annotations

import json
import random

from ..bulk import BlockWriter, load_block, run_bulk
from ..common import Verdict, imp, limbs, load_eolib_stubbed, require, run_tlc, scratch, seed, snapshot_repo
from ..wire import do_read, do_write, matching_read, rand_str, str_codes
from .. import common

PROP = "C06"
CODE = {1: "NoBreakInChunk", 2: "PrefixCorrect", 3: "SurplusZero", 4: "NonInterference"}


def _write(W, chunks, salt):
    w = W()
    w.string_sanitization_mode = True
    fb = []
    for ci, ch in enumerate(chunks):
        row = []
        for f in ch:
            before = len(w)
            do_write(w, f, salt)
            row.append(list(w.to_bytearray())[before:])
        fb.append(row)
        if ci < len(chunks) - 1:
            w.add_byte(0xFF)
    return bytes(w.to_bytearray()), fb


def _plan_reads(chunk, plan):
    return [matching_read(chunk[j], j == len(chunk) - 1) for j in range(plan["k"])] + list(plan["extra"])


def _read(R, data, chunks, plans):
    r = R(data)
    broken = ""
    try:
        r.chunked_reading_mode = True
    except Exception as e:          # switching the mode / moving to the next chunk cannot fail in the model: an observation, not a crash
        broken = type(e).__name__
    out = []
    for i, pl in enumerate(plans):
        ch = chunks[i] if i < len(chunks) else []
        rets = []
        for rc in _plan_reads(ch, pl):
            # an exception is recorded as a value no read can return (TLC compares like with like: an integer for get_byte, a sequence otherwise)
            bad = -7777 if rc["op"] == "get_byte" else [-7777]
            if broken:
                rets.append(bad)
                continue
            ret, exc = do_read(r, rc)
            rets.append(ret if not exc else bad)
        if broken and not rets:
            rets.append([-7777])
        out.append(rets)
        if not broken:
            try:
                r.next_chunk()
            except Exception as e:
                broken = type(e).__name__
    return out


def observe(W, R, chunks, plans, salt=0):
    clean = [[{k: v for k, v in f.items() if not k.startswith("_")} for f in ch] for ch in chunks]
    data, fb = _write(W, chunks, salt)
    results = _read(R, data, clean, plans)
    alone = []
    for i, pl in enumerate(plans):
        ch = chunks[i] if i < len(chunks) else []
        cl = clean[i] if i < len(clean) else []
        d1, _ = _write(W, [ch], salt)
        alone.append(_read(R, d1, [cl], [pl])[0])
    return {"chunks": clean, "plans": plans, "fieldbytes": fb, "results": results, "alone": alone}


def _rand_case(rng):
    chunks, plans = [], []
    for _ in range(rng.randrange(1, 9)):
        ch = []
        nf = rng.randrange(0, 7)
        for j in range(nf):
            x = rng.random()
            if x < 0.5:
                op = rng.choice(["add_char", "add_short", "add_three", "add_int"])
                lim = {"add_char": 253, "add_short": 253 ** 2, "add_three": 253 ** 3, "add_int": 253 ** 4}[op]
                n = rng.choice([0, 1, lim - 1, 252, 253, 254, rng.randrange(lim), rng.randrange(lim)])
                ch.append({"op": op, "n": limbs(n % lim)})
            elif x < 0.85 or j < nf - 1:
                s = rand_str(rng, 6)
                ch.append({"op": rng.choice(["add_fixed_string", "add_fixed_encoded_string"]), "s": str_codes(s), "len": len(s), "padded": False, "_py": s})
            else:
                s = rand_str(rng, 8)
                if rng.random() < 0.02:
                    # a long chunk (a map name list, a quest text): longer than any recursion or buffer size one might assume
                    s = "".join(rng.choice("abcdefgh XYZ.,") for _ in range(rng.randrange(1100, 1600)))
                ch.append({"op": rng.choice(["add_string", "add_encoded_string"]), "s": str_codes(s), "_py": s})
        chunks.append(ch)
        extra = []
        for _ in range(rng.choice([0, 0, 1, 2, 3])):
            e = rng.choice([{"op": "get_char"}, {"op": "get_short"}, {"op": "get_three"}, {"op": "get_int"}, {"op": "get_byte"},
                            {"op": "get_string"}, {"op": "get_encoded_string"}, {"op": "get_bytes", "n": rng.randrange(0, 6)},
                            {"op": "get_fixed_string", "n": rng.randrange(0, 6), "padded": rng.random() < 0.3},
                            {"op": "get_fixed_encoded_string", "n": rng.randrange(0, 6), "padded": False}])
            extra.append(e)
        plans.append({"k": rng.choice([len(ch), len(ch), rng.randrange(0, len(ch) + 1)]), "extra": extra})
    if rng.random() < 0.3:       # ask for one chunk more than was written
        plans.append({"k": 0, "extra": [rng.choice([{"op": "get_char"}, {"op": "get_int"}, {"op": "get_string"}, {"op": "get_byte"}])]})
    return chunks, plans


def run(tier, corrupt=False):
    v = Verdict(PROP, tier)
    cfgs = ["MC_EoChunks"] if tier == "quick" else ["MC_EoChunks_thorough", "MC_EoChunks_thorough3"]
    cov = {"states": 0, "transitions": 0, "model_runs": []}
    beh = []
    for c in cfgs:
        r = run_tlc("MC_EoChunks", c + ".cfg", coverage=True, timeout=6000)
        require(r.ok, f"model-level failure in MC_EoChunks/{c} (spec problem):\n" + r.tail())
        for a in ("AddField", "CloseChunk", "ChoosePlan", "Finish"):
            require(r.coverage.get(a, 0) > 0, f"vacuity: {a} never fired")
        e = run_tlc("MC_EoChunks", c + "_emit.cfg", workers=1, timeout=6000)
        got = [p for p in e.printed if isinstance(p, dict) and "chunks" in p]
        beh += got
        cov["states"] += r.distinct
        cov["transitions"] += r.generated
        cov["model_runs"].append({"module": "MC_EoChunks", "cfg": c, "distinct_states": r.distinct, "behaviours": len(got),
                                  "invariants": ["InvNoBreakInChunk", "InvDone = PrefixCorrect + SurplusZero + NonInterference"]})
    require(len(beh) > 5000, f"too few behaviours from TLC ({len(beh)})")
    with scratch("c06-") as tmp:
        load_eolib_stubbed(snapshot_repo(tmp))
        W = imp("eolib.data.eo_writer").EoWriter
        R = imp("eolib.data.eo_reader").EoReader
        rng = random.Random(seed() * 7919 + 6)
        nrand = 5000 if tier == "quick" else 50000
        with scratch("c06blk-") as d:
            bw = BlockWriter(d)
            rows = []
            cases = [(b["chunks"], b["plans"]) for b in beh] + [_rand_case(rng) for _ in range(nrand)]
            for i, (chunks, plans) in enumerate(cases):
                rows.append(observe(W, R, chunks, plans, salt=i))
                if len(rows) == 4096:
                    bw.add({"kind": "chunks", "rows": rows})
                    rows = []
            bw.add({"kind": "chunks", "rows": rows})
            bw.close()
            if corrupt:
                b = load_block(d, 1)
                row = next(rw for rw in b["rows"] if len(rw["chunks"]) == 2 and rw["results"][1])
                row["results"][1][0] = row["results"][1][0] + [1]
                (d / "block_1.json").write_text(json.dumps(b))
            res, checked, bad = run_bulk("Bulk_EoChunks", d, bw.n)
            cov["states"] += res.distinct
            cov["transitions"] += res.generated
            b1 = load_block(d, 1)
            samples = [{k: b1["rows"][len(b1["rows"]) // 2][k] for k in ("chunks", "plans", "results")}]
            for blkno, entries in bad:
                blk = load_block(d, blkno)
                for rowi, c, code in entries:
                    row = blk["rows"][rowi - 1]
                    ops = [[f["op"] + str(f.get("s", f.get("n", ""))) for f in ch] for ch in row["chunks"]]
                    key = f"{CODE[code]} chunk {c} of {ops} plans={[(p['k'], [e['op'] for e in p['extra']]) for p in row['plans']]}"
                    v.violation(key[:400], f"{CODE[code]} fails for chunk {c}: field bytes={row['fieldbytes'][c - 1] if c <= len(row['fieldbytes']) else 'none (chunk never written)'} results={row['results'][c - 1]} alone={row['alone'][c - 1]}",
                                {"chunks": row["chunks"], "plans": row["plans"], "chunk": c, "code": code})
    cov.update({"traces_validated_against_impl": checked, "tlc_behaviours": len(beh), "random_cases": nrand, "samples": samples, "exhaustive": False,
                "explanation": "exhaustive over the MC_EoChunks alphabets (chunks grown field by field, every plan of the earlier chunks); random: up to 8 "
                               "chunks x 6 fields with arbitrary Unicode strings and in-range integers, random plans"})
    return v.finish(cov, ["TLC semantics", "padded strings and raw bytes inside chunks are outside the property (they legitimately contain 0xFF)"])


def selftest(tier):
    common.SELFTEST = True
    rc = run("quick", corrupt=True)
    print("SELFTEST OK: corrupted observation rejected" if rc == 1 else "SELFTEST FAILED")
    return 0 if rc == 1 else 2


def replay(path):
    case = json.loads(open(path).read())["case"]
    with scratch("c06-") as tmp:
        load_eolib_stubbed(snapshot_repo(tmp))
        W = imp("eolib.data.eo_writer").EoWriter
        R = imp("eolib.data.eo_reader").EoReader
        print(json.dumps(observe(W, R, case["chunks"], case["plans"]), indent=1)[:4000])
    return 0
