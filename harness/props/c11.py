"""C11 - server verification hash equals the game client's arithmetic.

Model: spec/ServerVerify.tla (published formula with truncating remainder).  Apalache: non-negativity / EO-int
bound for every challenge <= 11,092,110 (and tightness: fails one above).  TLC: boundary windows.  Binding:
pattern B, the real server_verification_hash on every challenge of the three-byte field (thorough) or on
boundary windows + stride + random (quick), checked by Bulk_ServerVerify.
"""
from __future__ import annotations

import json
import random

from ..bulk import load_block, parallel_blocks, run_bulk
from ..common import Verdict, imp, load_eolib_stubbed, require, run_apalache, run_tlc, scratch, seed, snapshot_repo
from .. import common

PROP = "C11"
LIMIT = 253 ** 3
_H = None


RAISED = -2000000001      # row value standing for "the call raised" (no hash is that small)
NOTINT = -2000000002      # ... "the result is not an int" (a float equal to the right number cannot be written with add_int)


def _call(c):
    try:
        h = _H(c)
    except Exception:
        return RAISED
    if type(h) is not int:
        return NOTINT
    return h if abs(h) < 2000000000 else NOTINT


def _gen(spec):
    if spec["kind"] == "exh":
        b, n = spec["base"], spec["n"]
        return {"kind": "exh", "base": b, "rows": [_call(c) for c in range(b, b + n)]}
    return {"kind": "rows", "rows": [[c, _call(c)] for c in spec["values"]]}


def _specs(tier, rng):
    specs = []
    if tier == "thorough":
        for b in range(0, LIMIT, 65536):
            specs.append({"kind": "exh", "base": b, "n": min(65536, LIMIT - b)})
        return specs
    W = 70_000
    for start in (0, 11092004 - W // 2, 11092110 - 1000, LIMIT - W):
        for b in range(start, min(start + W, LIMIT), 35_000):
            specs.append({"kind": "exh", "base": b, "n": min(35_000, LIMIT - b)})
    vals = list(range(0, LIMIT, 97)) + [rng.randrange(LIMIT) for _ in range(200_000)]
    # residue-class strata: the formula's moduli are 9, 11, 119k, 2004 - exact multiples are where C and floor remainders part
    for k in range(1, 12):
        m = k * 119
        base = 11092004
        vals += [base + j * m - 1 for j in range(0, (LIMIT - base) // m + 1, max(1, ((LIMIT - base) // m) // 3000))]
    vals = [c for c in vals if 0 <= c < LIMIT]
    for i in range(0, len(vals), 32768):
        specs.append({"kind": "rows", "values": vals[i:i + 32768]})
    # the hash is a function of the challenge alone: descending sweeps, neighbours visited back and forth, sign-mirrored dividends
    # (challenges at equal distance on either side of 11,092,003) and repeats - orders an ascending table never produces
    order = []
    for start in (0, 600, 11092004 - 3000, 11092110 - 2500, 11092110, 16194276 - 5000):
        lo = max(0, start)
        order += list(range(min(lo + 5000, LIMIT) - 1, lo - 1, -1))
    for c in [rng.randrange(1, LIMIT - 1) for _ in range(4000)]:
        order += [c, c - 1, c, c + 1, c]
    for d in list(range(1, 1400)) + [rng.randrange(1, 5_000_000) for _ in range(3000)]:
        for c in (11092003 + d, 11092003 - d, 11092003 + d):
            if 0 <= c < LIMIT:
                order.append(c)
    for i in range(0, len(order), 32768):
        specs.append({"kind": "rows", "values": order[i:i + 32768]})
    return specs


def _describe(blk, i):
    if blk["kind"] == "exh":
        return blk["base"] + i - 1, blk["rows"][i - 1]
    return tuple(blk["rows"][i - 1])


def _key(c):
    # canonical key for known-findings: the failing challenge itself
    return f"challenge={c}"


def run(tier, corrupt=False):
    global _H
    v = Verdict(PROP, tier)
    r1 = run_tlc("MC_ServerVerify", "MC_ServerVerify.cfg", workers=4)
    require(r1.ok, "model-level failure in MC_ServerVerify:\n" + r1.tail())
    r2 = run_tlc("MC_ServerVerify", "MC_ServerVerify_witness.cfg", workers=1)
    require("WitnessNeverNegative" in r2.invariant_violated, "vacuity: the model never yields a negative hash above the documented bound")
    ok, _, w1 = run_apalache("Apa_ServerVerify", "ThmBound")
    require(ok, "Apalache refutes the documented bound on the model (spec problem)")
    ok2, _, _ = run_apalache("Apa_ServerVerify", "ThmBound", init="InitBeyond")
    require(not ok2, "Apalache leg vacuous: bound should fail at 11,092,111")
    cov = {"states": r1.distinct, "transitions": r1.generated,
           "model_runs": [{"module": "MC_ServerVerify", "distinct_states": r1.distinct, "invariant": "InvBound on 4 boundary windows"}],
           "apalache": [{"theorem": "0 <= Hash(c) < 253^4 for all 0 <= c <= 11092110", "wall_s": round(w1, 1),
                         "tightness": "refuted when the range is extended to 11092111"}]}
    with scratch("c11-") as tmp:
        load_eolib_stubbed(snapshot_repo(tmp))
        _H = imp("eolib.encrypt.server_verification_utils").server_verification_hash
        rng = random.Random(seed() * 7919 + 11)
        specs = _specs(tier, rng)
        total = bad_total = 0
        samples = []
        for stage in [specs[i:i + 128] for i in range(0, len(specs), 128)]:
            with scratch("c11blk-") as d:
                nb, rows = parallel_blocks(d, _gen, stage)
                if corrupt:
                    b = load_block(d, 1)
                    b["rows"][12] += 1
                    (d / "block_1.json").write_text(json.dumps(b))
                    corrupt = False
                res, checked, bad = run_bulk("Bulk_ServerVerify", d, nb)
                require(checked == rows, "row count mismatch")
                total += checked
                cov["states"] += res.distinct
                cov["transitions"] += res.generated
                if not samples:
                    samples = [dict(zip(("challenge", "hash"), _describe(load_block(d, 1), 6))),
                               dict(zip(("challenge", "hash"), _describe(load_block(d, nb), 1)))]
                for b, idxs in bad:
                    blk = load_block(d, b)
                    bad_total += len(idxs)
                    for i in idxs[:8]:
                        c, h = _describe(blk, i)
                        what = (f"server_verification_hash({c}) raised an exception" if h == RAISED else
                                f"server_verification_hash({c}) does not return an int (a float cannot be sent as an EO int)" if h == NOTINT else
                                f"server_verification_hash({c}) = {h} differs from the client formula (truncating remainder)")
                        v.violation(_key(c), what, {"challenge": c, "observed": h})
    cov.update({"traces_validated_against_impl": total, "rows_disagreeing": bad_total, "samples": samples,
                "exhaustive": tier == "thorough",
                "strata": "all 16,194,277 challenges" if tier == "thorough" else
                          "windows at 0, 11092004, 11092110, 253^3 + every 97th challenge + exact-multiple residue strata + 200k random"})
    return v.finish(cov, ["the published formula with C-style truncating remainder is what the game client computes (property text)",
                          "TLC/Apalache integer semantics"])


def selftest(tier):
    common.SELFTEST = True
    rc = run("quick", corrupt=True)
    print("SELFTEST OK: corrupted row rejected" if rc == 1 else "SELFTEST FAILED")
    return 0 if rc == 1 else 2


def replay(path):
    case = json.loads(open(path).read())["case"]
    with scratch("c11-") as tmp:
        load_eolib_stubbed(snapshot_repo(tmp))
        h = imp("eolib.encrypt.server_verification_utils").server_verification_hash
        print("challenge", case["challenge"], "->", h(case["challenge"]), "recorded", case["observed"])
    return 0
