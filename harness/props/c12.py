"""C12 - generated sequence starts are always transmittable and reconstructible.

Model: spec/SequenceStart.tla (Draw* ; Result ; FromValues, components through the EO codec).  TLC:
MC_SequenceStart (most general generator: every value producible, every valid result reconstructs).
Binding: V, exhaustive - the random source of eolib.packet.sequence_start is replaced by a scripted one and
EVERY outcome of EVERY draw is enumerated depth-first (the requested ranges are observed, not assumed);
each outcome is a row that Bulk_SequenceStart accepts iff it is a behaviour of the spec.
"""
from __future__ import annotations

import json
import types

from ..bulk import BlockWriter, load_block, run_bulk
from ..common import MachineryError, Verdict, imp, load_eolib_stubbed, require, run_tlc, scratch, snapshot_repo
from .. import common

PROP = "C12"


class Script:
    """Scripted random source: answers draw k with lo + script[k] (0 beyond the script) and records (lo, hi, ret)."""

    def __init__(self, script):
        self.script = script
        self.draws = []

    def randrange(self, start, stop=None, step=1):
        if stop is None:
            start, stop = 0, start
        if step != 1:
            raise MachineryError("scripted random source: step != 1 not supported")
        k = len(self.draws)
        off = self.script[k] if k < len(self.script) else 0
        if stop <= start:
            self.draws.append([start, stop, start])
            raise ValueError("empty range for randrange()")
        self.draws.append([start, stop, start + off])
        return start + off

    def randint(self, a, b):
        return self.randrange(a, b + 1)

    def __getattr__(self, name):
        raise MachineryError(f"sequence_start used random.{name}, which the scripted source cannot enumerate")


def _fake_module(script):
    s = Script(script)
    m = types.SimpleNamespace(randrange=s.randrange, randint=s.randint)
    return s, m


_SAVED = {}


def _install(mod, s):
    """Substitute the random source however the module reaches it: `random.randrange(..)`, or names imported from random."""
    import random as _random
    if not _SAVED:
        _SAVED["global"] = {n: getattr(_random, n) for n in ("randrange", "randint")}
        _SAVED["mod"] = {n: getattr(mod, n) for n in ("random", "randrange", "randint") if hasattr(mod, n)}
    _random.randrange, _random.randint = s.randrange, s.randint
    for n in ("randrange", "randint"):
        if n in _SAVED["mod"]:
            setattr(mod, n, getattr(s, n))


def _restore(mod):
    import random as _random
    if _SAVED:
        for n, f in _SAVED["global"].items():
            setattr(_random, n, f)
        for n, f in _SAVED["mod"].items():
            setattr(mod, n, f)
        _SAVED.clear()


def _enumerate(mod, kind, value_filter=None):
    """Depth-first enumeration of all draw outcomes of <kind>.generate(); yields rows."""
    cls = {"init": mod.InitSequenceStart, "ping": mod.PingSequenceStart, "account": mod.AccountReplySequenceStart}[kind]
    script = []
    prev = None          # the previously generated start and what it reported: starts must not share state
    while True:
        s = Script(script)
        _install(mod, s)
        exc = ""
        value = seq1 = seq2 = fv = -1
        try:
            obj = cls.generate()
            value = obj.value
            if kind == "init":
                seq1, seq2 = obj.seq1, obj.seq2
                fv = mod.InitSequenceStart.from_init_values(seq1, seq2).value
            elif kind == "ping":
                seq1, seq2 = obj.seq1, obj.seq2
                fv = mod.PingSequenceStart.from_ping_values(seq1, seq2).value
            else:
                seq1 = seq2 = 0
                fv = mod.AccountReplySequenceStart.from_value(value).value
            if prev is not None:
                pobj, pvals = prev
                now = (pobj.value, getattr(pobj, "seq1", 0), getattr(pobj, "seq2", 0))
                if now != pvals:
                    exc = "EarlierStartChanged"      # generating a new start altered one generated before
            prev = (obj, (value, seq1 if kind != "account" else 0, seq2 if kind != "account" else 0))
        except MachineryError:
            raise
        except Exception as e:          # generation "never fails": any exception is recorded and rejected by the spec
            exc = type(e).__name__
        draws = s.draws
        if not all(isinstance(x, int) and not isinstance(x, bool) for x in (value, seq1, seq2, fv)):
            exc = exc or "NonInteger"
            value = seq1 = seq2 = fv = -1
        if value_filter is None or not draws or value_filter(draws[0][2]):
            yield [kind, draws, exc, value, seq1, seq2, fv]
        # odometer: advance the last draw that still has room
        nxt = None
        for k in range(len(draws) - 1, -1, -1):
            lo, hi, ret = draws[k]
            if ret + 1 < hi:
                nxt = [d[2] - d[0] for d in draws[:k]] + [ret - lo + 1]
                break
        if nxt is None:
            return
        if value_filter is not None and len(nxt) == 1:
            # skip first-draw values that are filtered out (quick tier)
            lo, hi, _ = draws[0]
            while lo + nxt[0] < hi and not value_filter(lo + nxt[0]):
                nxt[0] += 1
            if lo + nxt[0] >= hi:
                return
        script = nxt


def run(tier, corrupt=False):
    v = Verdict(PROP, tier)
    cfg = "MC_SequenceStart.cfg" if tier == "quick" else "MC_SequenceStart_thorough.cfg"
    r = run_tlc("MC_SequenceStart", cfg, workers=8)
    require(r.ok, "model-level failure in MC_SequenceStart (spec problem):\n" + r.tail())
    cov = {"states": r.distinct, "transitions": r.generated,
           "model_runs": [{"module": "MC_SequenceStart", "cfg": cfg, "distinct_states": r.distinct,
                           "checks": ["ASSUME EveryValueProducible", "SentIsReconstructible", "InRange"]}]}
    counts = {}
    with scratch("c12-") as tmp:
        load_eolib_stubbed(snapshot_repo(tmp))
        mod = imp("eolib.packet.sequence_start")
        with scratch("c12blk-") as d:
            bw = BlockWriter(d)
            try:
                for kind in ("init", "account", "ping"):
                    flt = (lambda x: x % 7 == 0 or x > 1740 or x < 8) if (kind == "ping" and tier == "quick") else None
                    rows = []
                    n = 0
                    for row in _enumerate(mod, kind, flt):
                        rows.append(row)
                        n += 1
                        if len(rows) == 32768:
                            bw.add({"kind": kind, "rows": rows})
                            rows = []
                    bw.add({"kind": kind, "rows": rows})
                    counts[kind] = n
            finally:
                _restore(mod)
            bw.close()
            if corrupt:
                b = load_block(d, 1)
                b["rows"][77][5] += 1
                (d / "block_1.json").write_text(json.dumps(b))
            res, checked, bad = run_bulk("Bulk_SequenceStart", d, bw.n)
            require(checked == bw.rows, "row count mismatch")
            cov["states"] += res.distinct
            cov["transitions"] += res.generated
            samples = [load_block(d, 1)["rows"][1000], load_block(d, bw.n)["rows"][0]]
            nbad = 0
            for b, idxs in bad:
                blk = load_block(d, b)
                nbad += len(idxs)
                for i in idxs[:6]:
                    row = blk["rows"][i - 1]
                    key = f"{row[0]} draws={[dd[2] for dd in row[1]]}"
                    what = (f"generate() outcome is not a behaviour of SequenceStart: draws(lo,hi,ret)={row[1]} exc={row[2]!r} "
                            f"value={row[3]} seq1={row[4]} seq2={row[5]} from_values={row[6]}")
                    v.violation(key, what, {"row": row})
    cov.update({"traces_validated_against_impl": checked, "outcomes": counts, "rows_disagreeing": nbad, "samples": samples,
                "exhaustive": tier == "thorough",
                "explanation": "all draw outcomes of INIT and ACCOUNT_REPLY" + (" and PING" if tier == "thorough" else "; PING: every 7th value plus both ends")})
    return v.finish(cov, ["the three generate() functions use only random.randrange/randint with step 1 (anything else is a machinery error)",
                          "TLC semantics"])


def selftest(tier):
    common.SELFTEST = True
    rc = run("quick", corrupt=True)
    print("SELFTEST OK: corrupted outcome rejected" if rc == 1 else "SELFTEST FAILED")
    return 0 if rc == 1 else 2


def replay(path):
    row = json.loads(open(path).read())["case"]["row"]
    with scratch("c12-") as tmp:
        load_eolib_stubbed(snapshot_repo(tmp))
        mod = imp("eolib.packet.sequence_start")
        script = [d[2] - d[0] for d in row[1]]
        for r in _enumerate(mod, row[0]):
            if [d[2] - d[0] for d in r[1]][:len(script)] == script:
                print("now:", r, "\nrecorded:", row)
                break
    return 0
