"""C09 - EoWriter validates atomically and sanitises exactly when asked.

Model: spec/EoWriter.tla (+EoWire.tla).  TLC: MC_EoWire explores every call history of depth 2 (3) over a 98-call
alphabet and checks that the model satisfies Atomic/ExactLength/SanitisedNoFF/ExactImage at every step.  Binding:
the same histories (and random ones with arbitrary Unicode / integers up to 2^40) are executed on the real
EoWriter, and TLC (Bulk_EoWire) evaluates the C09 predicates on what was observed."""
from __future__ import annotations

import json

from ..common import Verdict
from .. import common
from ._wire_common import C09_CODES, pipeline, replay_case

PROP = "C09"


def run(tier, corrupt=None):
    v = Verdict(PROP, tier)
    cov, findings = pipeline(tier, corrupt)
    for code, key, what, case in findings:
        if code in C09_CODES:
            v.violation(key, what, case)
    return v.finish(cov, ["TLC semantics", "histories beyond the exhaustive depth are sampled", "negative integers are outside the property"])


def selftest(tier):
    common.SELFTEST = True
    def corrupt(b):
        h = b["rows"][10]["w"][0]
        h["after"] = h["after"] + [7]
    rc = run("quick", corrupt)
    print("SELFTEST OK: corrupted observation rejected" if rc == 1 else "SELFTEST FAILED")
    return 0 if rc == 1 else 2


def replay(path):
    return replay_case(json.loads(open(path).read())["case"])
