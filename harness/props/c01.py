"""C01 - generated serializers round-trip every well-formed message.

Model: ProtoSer ; ProtoDeser composed by MC_Proto in mode "rt" over the wire-unambiguous programs of the corpus and the
lossless value domains (MCDoms RICH=FALSE, strict optional chains).  TLC checks PRoundTrip on the model - this is where
a too-weak 'wire_unambiguous' tag is found out - and emits every (program, object).  Binding: R - each object is built,
serialized by the generated code with a fresh writer, the bytes deserialized with a fresh reader; judged on the
observation: equal field by field, all bytes consumed, byte_size equal to the byte count (nested sizes against the
model's)."""
from __future__ import annotations

import json

from ..common import MachineryError, Verdict, require, scratch
from ..corpus import library
from ..proto import default_corpus, full_corpus, prepare_world, run_drivers_parallel, tlc_given
from ..randobj import Gen
from .. import common
from ._proto_common import short, strip_kinds, strip_sizes
from .c02 import collect

PROP = "C01"


def run(tier, corrupt=False):
    v = Verdict(PROP, tier)
    types = library()
    with scratch("c01-") as tmp:
        progs = full_corpus(tmp, tier)
        rt_progs = [p for p in progs if p.get("rt")]
        recs, stats = collect(tier, tmp, progs, types, "rt", rich=False, invariants=("PRoundTrip", "PInBounds", "POnlyDocumentedError"),
                              properties=("PDModeRestored", "PModeRestored"), tag="rt", emit_withsize=False)
        require(stats["action_counts"]["ToDeser"] > 0 and stats["action_counts"]["DeReturn"] > 0, "vacuity: no round trip completed in the model")
        recs = [r for r in recs if r["kind"] == "de"]
        require(len(recs) > 1000, f"too few behaviours from TLC ({len(recs)})")
        seen = {r["prog"] for r in recs}
        require(all(p["name"] in seen for p in rt_progs), "some wire-unambiguous program produced no behaviour")
        # SpecGen programs: wire-unambiguous (within the bound) iff the MODEL round-trips every lossless object
        ambiguous = {r["prog"] for r in recs if not r["rt_ok"]}
        recs = [r for r in recs if r["prog"] not in ambiguous]
        with scratch("c01w-") as wt:
            src, accepted, rejected = prepare_world(wt, progs, types)
            for p, e in rejected:
                v.violation(f"generator rejects valid program {p['name']}", f"{type(e).__name__}: {e}", {"prog": p})
            acc = {p["name"] for p in accepted}
            kept = [r for r in recs if r["prog"] in acc]
            cases = [{"kind": "rt", "prog": r["prog"], "obj": r["src"], "salt": 0} for r in kept]
            imp, results = run_drivers_parallel(src, wt, accepted, types, cases)
            if imp:
                v.violation("generated package not importable", imp.strip().splitlines()[-1], {"trace": imp})
                results = []
            n = 0
            for r, o in zip(kept, results):
                n += 1
                if "harness_error" in o:
                    raise MachineryError(o["harness_error"])
                s, d = o["ser"], o["de"]
                key = f"{r['prog']} obj={short(r['src'])}"
                case = {"prog": r["prog"], "obj": r["src"], "observed": o}
                if s["ctor_exc"]:
                    v.violation(key, f"valid object cannot be constructed: {s['ctor_exc']}", case)
                    continue
                if s["exc"]:
                    v.violation(key, f"serialize raised {s['exc']} ({s.get('exc_msg')}) for a valid object", case)
                    continue
                if corrupt and n == 31:
                    d = dict(d, pos=d["pos"] - 1)
                if d["exc"]:
                    v.violation(key, f"deserializing the object's own serialization raised {d['exc']} ({d.get('exc_msg')})", case)
                    continue
                if strip_sizes(d["obj"]) != r["src"]:
                    v.violation(key, f"round trip changed the object: {short(strip_sizes(d['obj']))}", case)
                if d["pos"] != len(s["bytes"]) or d["remaining"] != 0:
                    v.violation(key, f"deserializer consumed {d['pos']} of {len(s['bytes'])} bytes (remaining {d['remaining']})", case)
                if d.get("window_differs"):
                    v.violation(key, "the result depends on how the reader came by the bytes: " + d["window_differs"], case)
                if d["obj"] != "None" and d["obj"].get("_size") != len(s["bytes"]):
                    v.violation(key, f"byte_size {d['obj'].get('_size')} != {len(s['bytes'])} bytes written", case)
                elif d.get("nested_size_mismatch"):
                    v.violation(key, f"byte_size of nested objects differs from the bytes they occupy: {d['nested_size_mismatch'][:3]} (class, byte_size, bytes)", case)
            # ---- pattern V: random larger objects (plain-ASCII strings, arrays <= 6, optional chains cut at the first None, empty
            # arrays in the middle of a chain, boundary counts).  Whether an object is in C01's quantifier is decided by the MODEL
            # (mode givenrt: it round-trips there), the verdict by the real round trip.
            import random
            from ..common import seed
            rng = random.Random(seed() * 7919 + 1)
            ctypes = {**types, **{p["name"]: {"kind": "struct", "dir": p["dir"], "code": p["code"]} for p in progs if p["kind"] == "struct"}}
            gen = Gen(ctypes, rng, lossless=True)
            idx = {p["name"]: i + 1 for i, p in enumerate(progs)}
            per = 6 if tier == "quick" else 30
            vcases = [{"p": idx[p["name"]], "obj": gen.obj(p["code"], p["name"]), "san0": False} for p in accepted if p["name"] not in ambiguous
                      for _ in range(per if p.get("gen") else 3 * per)]
            for p in accepted:
                if p["name"] not in ambiguous and '"tag": "length"' in json.dumps(p["code"]):
                    gen.boundary = True        # as many items as each byte/char length field can carry
                    vcases.append({"p": idx[p["name"]], "obj": gen.obj(p["code"], p["name"]), "san0": False})
                    gen.boundary = False
            model = tlc_given(tmp, progs, types, vcases, "givenrt", withsize=False, loopbound=400)
            sel = [(c, m) for c, m in zip(vcases, model) if m["kind"] == "de" and m["rt_ok"]]
            imp2, vres = run_drivers_parallel(src, wt, accepted, types, [{"kind": "rt", "prog": progs[c["p"] - 1]["name"], "obj": c["obj"], "salt": 0} for c, _ in sel])
            nv = 0
            for (c, m), o in zip(sel, vres):
                nv += 1
                if "harness_error" in o:
                    raise MachineryError(o["harness_error"])
                prog = progs[c["p"] - 1]["name"]
                s_, d_ = o["ser"], o["de"]
                key = f"{prog} (random) obj={short(c['obj'])}"
                case = {"prog": prog, "obj": c["obj"], "observed": o}
                if s_["ctor_exc"] or s_["exc"] or d_ is None or d_["exc"]:
                    v.violation(key, f"a lossless object does not survive: constructor {s_['ctor_exc']!r} serialize {s_['exc']!r} deserialize {(d_ or {}).get('exc')!r}", case)
                elif strip_sizes(d_["obj"]) != c["obj"]:
                    v.violation(key, f"round trip changed the object: {short(strip_sizes(d_['obj']))}", case)
                elif d_.get("window_differs"):
                    v.violation(key, "the result depends on how the reader came by the bytes: " + d_["window_differs"], case)
                elif d_["pos"] != len(s_["bytes"]) or d_["remaining"] != 0 or d_["obj"].get("_size") != len(s_["bytes"]) or d_.get("nested_size_mismatch"):
                    v.violation(key, f"consumed {d_['pos']} of {len(s_['bytes'])} bytes, byte_size {d_['obj'].get('_size')}, nested mismatches {d_.get('nested_size_mismatch')}", case)
            n += nv
        # ---- names: the grammar puts no restriction on field names; the MODEL round-trips these programs like any other (a name is a
        # name), the generated code must too even where the name is one it uses for itself (loop variable, reader, ...)
        from ..corpus import hostile_name_programs
        hn = hostile_name_programs()
        hprogs = [progs[0]] + [p for p, _, _ in hn]
        hmodel = tlc_given(tmp, hprogs, types, [{"p": k + 2, "obj": o, "san0": False} for k, (_, o, _) in enumerate(hn)], "givenrt", withsize=False, tag="names")
        require(all(m["kind"] == "de" and m["rt_ok"] for m in hmodel), "the model does not round-trip a hostile-name program")
        with scratch("c01n-") as wt2:
            src2, acc2, rej2 = prepare_world(wt2, hprogs, types)
            for p, e in rej2:
                v.violation(f"generator rejects valid program {p['name']}", f"{type(e).__name__}: {e}", {"prog": p})
            accn = {p["name"] for p in acc2}
            hsel = [(p, o, nm) for p, o, nm in hn if p["name"] in accn]
            imp3, hres = run_drivers_parallel(src2, wt2, acc2, types, [{"kind": "rt", "prog": p["name"], "obj": o, "salt": 0} for p, o, _ in hsel])
            if imp3:
                v.violation("names: generated package not importable", imp3.strip().splitlines()[-1], {"trace": imp3})
                hres = []
            for (p, o, nm), res_ in zip(hsel, hres):
                n += 1
                if "harness_error" in res_:
                    raise MachineryError(res_["harness_error"])
                s_, d_ = res_["ser"], res_["de"]
                key = f"names: {p['name']} (field named {nm})"
                case = {"prog": p, "obj": o, "observed": res_}
                if s_["ctor_exc"] or s_["exc"] or d_ is None or d_["exc"]:
                    v.violation(key, f"object does not survive: constructor {s_['ctor_exc']!r} serialize {s_['exc']!r} deserialize {(d_ or {}).get('exc')!r} {(d_ or {}).get('exc_msg', '')!r}", case)
                elif strip_sizes(d_["obj"]) != o:
                    v.violation(key, f"round trip changed the object: {short(strip_sizes(d_['obj']))} (was {short(o)})", case)
                elif d_["pos"] != len(s_["bytes"]) or d_["remaining"] != 0 or d_["obj"].get("_size") != len(s_["bytes"]) or d_.get("nested_size_mismatch"):
                    v.violation(key, f"consumed {d_['pos']} of {len(s_['bytes'])} bytes, byte_size {d_['obj'].get('_size')}", case)
    cov = dict(stats)
    cov["hostile_field_name_programs"] = len(hn)
    cov["random_objects_round_tripped"] = nv
    cov["random_objects_outside_the_quantifier_by_the_model"] = len(vcases) - len(sel)
    cov.update({"traces_validated_against_impl": n, "programs": len(rt_progs), "programs_excluded_as_ambiguous": [p["name"] for p in progs if not p.get("rt")] , "generated_programs_classified_ambiguous_by_the_model": len(ambiguous),
                "generated_programs_round_tripped": len({r["prog"] for r in kept if r["prog"].startswith("G")}),
                "samples": [{"prog": kept[0]["prog"], "obj": kept[0]["src"], "bytes": kept[0]["data"]}, {"prog": kept[-1]["prog"], "obj": kept[-1]["src"], "bytes": kept[-1]["data"]}],
                "exhaustive": False,
                "explanation": "all objects of the lossless bounded domains for every wire-unambiguous program of the corpus (tag re-checked by TLC on the model)"})
    return v.finish(cov, ["the corpus bounds 'all programs'", "lossless value domains (cp1252-encodable, no y-diaeresis/tilde, no empty optional tails) per the property's quantifier"])


def selftest(tier):
    common.SELFTEST = True
    rc = run("quick", corrupt=True)
    print("SELFTEST OK: corrupted observation rejected" if rc == 1 else "SELFTEST FAILED")
    return 0 if rc == 1 else 2


def replay(path):
    print(json.dumps(json.loads(open(path).read())["case"], indent=1)[:6000])
    return 0
