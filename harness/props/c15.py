"""C15 - (de)serialization leaves reader and writer modes as it found them.

Model: ProtoSer / ProtoDeser record the mode found by every object frame and put it back on every exit path - Return and
the frame-by-frame Unwind that models try/finally.  TLC (MC_Proto): action properties PModeRestored / PDModeRestored and
the end-to-end invariants over the corpus x both entry modes x bounded values / corrupted bytes x an injected failure at
each of the first primitive writer/reader calls.  Binding: R - every behaviour runs on the generated code with a
writer/reader that fails at the same call; every generated serialize/deserialize (nested structs, array elements, case
data) is wrapped by the harness to record the mode at entry and exit; each nested class is also entered DIRECTLY (it is a public
class with its own serialize/deserialize) with either mode, on its own bytes, a truncation and an extension of them; judged on
the observation alone."""
from __future__ import annotations

import json

from ..common import MachineryError, Verdict, require, scratch, seed
from ..corpus import library
from ..proto import default_corpus, full_corpus, prepare_world, run_drivers_parallel
from .. import common
from ._proto_common import mode_violations, short
from .c02 import collect

PROP = "C15"


def run(tier, corrupt=False):
    v = Verdict(PROP, tier)
    types = library()
    with scratch("c15-") as tmp:
        # thorough: the quick corpus with every generated program selected and one more fault position - the extended thorough corpus
        # (600 generated programs x 9 fault positions) reached 55 GB and was never seen to finish on this machine
        progs = full_corpus(tmp, "quick", n_generated=60)
        interesting = [p for p in progs if any(k in json.dumps(p["code"]) for k in ('"chunked"', '"switch"', "Named", "Coords", "Tail", "Item", "HDummyAfter", "HBlob"))]
        # quick: every hand-written program, every other one of the generated ones (the amount of work must not depend on the seed)
        if True:
            must = [p for p in interesting if not p.get("gen")]
            rest = [p for p in interesting if p not in must]
            sel = must + (rest if tier == "thorough" else rest[(seed() % 2)::2])
        # a program that uses another program as a field type needs it in the same model
        byname = {p["name"]: p for p in progs}
        for p in list(sel):
            for q in byname.values():
                if q["kind"] == "struct" and q not in sel and f'"{q["name"]}' in json.dumps(p["code"]):
                    sel.append(q)
        nf = 5 if tier == "quick" else 6
        from .c02 import merge_stats, program_groups
        all_sel = sel
        groups = program_groups(all_sel, "quick")
        tot = {"s1": None, "s2": None, "s3": None, "n": 0, "nfault": 0, "first_meta": None, "last_meta": None}
        for gi, sel in enumerate(groups):
            r1, s1 = collect(tier, tmp, sel, types, "ser", rich=False, nfuel=nf, invariants=("SerLeavesModeAsFound", "PNoSilentFailure"),
                             properties=("PModeRestored",), tag="sf")
            r2, s2 = collect(tier, tmp, sel if tier == "thorough" else sel[::2], types, "hostile", rich=False, ndfuel=nf - 1, light=True,
                             invariants=("DeLeavesModeAsFound", "PInBounds"), properties=("PDModeRestored",), tag="df")
            r3, s3 = collect(tier, tmp, sel, types, "bytes", rich=False, maxbytes=2, ndfuel=3, invariants=("DeLeavesModeAsFound",), properties=("PDModeRestored",), tag="bf")
            require(gi > 0 or s1["action_counts"]["SerUnwind"] > 0, "vacuity: no serializer behaviour failed part-way")
            require(gi > 0 or s2["action_counts"]["DeUnwind"] + s3["action_counts"]["DeUnwind"] > 0, "vacuity: no deserializer behaviour failed part-way")
            sers = [r for r in r1 if r["kind"] == "ser"]
            # a faulted serialization has no finished object; replay it with the object of the unfaulted twin (same program, same choices up to the fault)
            des = [r for r in r2 + r3 if r["kind"] == "de" and r["status"] != "bound"]
            with scratch("c15w-") as wt:
                src, accepted, rejected = prepare_world(wt, sel, types)
                acc = {p["name"] for p in accepted}
                ok_objs = {}
                for r in sers:
                    if r["exc"] == "" and r["prog"] in acc:
                        ok_objs.setdefault(r["prog"], []).append(r["obj"])
                cases, meta = [], []
                model_modes = {}
                for r in sers:
                    if r["exc"] == "" and r["fuel"] == -1:
                        model_modes[(r["prog"], r["san0"], json.dumps(r["obj"], sort_keys=True))] = r["modes"]
                for prog, objs in ok_objs.items():
                    for oi, obj in enumerate(objs):
                        for san0 in (False, True):
                            for fuel in [-1] + list(range(nf)):
                                cases.append({"kind": "ser", "prog": prog, "san0": san0, "fuel": fuel, "obj": obj, "salt": oi, "direct_nested": fuel == -1})
                                meta.append(("ser", prog, san0, fuel, obj, model_modes.get((prog, san0, json.dumps(obj, sort_keys=True))) if fuel == -1 else None))
                for r in des:
                    if r["prog"] in acc:
                        cases.append({"kind": "de", "prog": r["prog"], "data": r["data"], "ch0": r["ch0"], "dfuel": r["dfuel"]})
                        meta.append(("de", r["prog"], r["ch0"], r["dfuel"], r["data"], r["modes"]))
                n = nfault = 0
                BATCH = 50000               # results carry the call log of every case: judged batch by batch
                for b0 in range(0, len(cases), BATCH):
                    imp, results = run_drivers_parallel(src, wt, accepted, types, cases[b0:b0 + BATCH])
                    if imp:
                        v.violation("generated package not importable", imp.strip().splitlines()[-1], {"trace": imp})
                        break
                    for m, o in zip(meta[b0:b0 + BATCH], results):
                        n += 1
                        if "harness_error" in o:
                            raise MachineryError(o["harness_error"])
                        kind, prog, mode0, fuel, payload, mmodes = m
                        if o.get("ctor_exc"):
                            continue
                        if o.get("exc") == "Fault":
                            nfault += 1
                        calls = o["calls"]
                        if corrupt and n == 40 and calls:
                            calls = [list(calls[0][:3]) + [not calls[0][2], False]] + calls[1:]
                        end = o["san_end"] if kind == "ser" else o["ch_end"]
                        bad = mode_violations(calls)
                        if end is not None and end != mode0:
                            bad.append({"cls": prog, "call": "top-level " + ("serialize" if kind == "ser" else "deserialize"), "entry": mode0, "exit": end, "raised": bool(o.get("exc"))})
                        # "never read or sanitised as chunked unless it says so, and vice versa": the mode in force at every primitive call
                        if mmodes is not None and not o.get("exc") == "TimeoutError" and o.get("modes") is not None and o["modes"] != mmodes:
                            k_ = next((i for i, (a, b_) in enumerate(zip(o["modes"], mmodes)) if a != b_), min(len(o["modes"]), len(mmodes)))
                            key = f"{prog} mode at primitive call #{k_ + 1} entry={mode0} fault_at={fuel} input={short(payload, 160)}"
                            v.violation(key, f"primitive {'writer' if kind == 'ser' else 'reader'} call #{k_ + 1} ran with mode {o['modes'][k_] if k_ < len(o['modes']) else 'n/a'}, "
                                             f"the declaration gives {mmodes[k_] if k_ < len(mmodes) else 'n/a'} (observed trace {o['modes'][:12]}, model {mmodes[:12]})",
                                        {"kind": kind, "prog": prog, "mode0": mode0, "fuel": fuel, "input": payload, "observed_modes": o["modes"], "model_modes": mmodes})
                        for b in bad[:2]:
                            key = f"{prog} {b['cls']}.{b['call']} entry={b['entry']} exit={b['exit']} raised={b['raised']} fault_at={fuel} input={short(payload, 160)}"
                            v.violation(key, f"{b['cls']}.{b['call']} was entered with mode {b['entry']} and left it {b['exit']} "
                                             f"({'raising ' + o.get('exc', '') if b['raised'] else 'returning'})", {"kind": kind, "prog": prog, "mode0": mode0, "fuel": fuel, "input": payload, "calls": calls})
            tot["n"] += n
            tot["nfault"] += nfault
            for k_, s_ in (("s1", s1), ("s2", s2), ("s3", s3)):
                tot[k_] = s_ if tot[k_] is None else merge_stats(tot[k_], s_)
            if tot["first_meta"] is None:
                tot["first_meta"] = meta[0]
            tot["last_meta"] = meta[-1]
            del r1, r2, r3, sers, des, cases
        sel, s1, s2, s3, n, nfault = all_sel, tot["s1"], tot["s2"], tot["s3"], tot["n"], tot["nfault"]
        meta = [tot["first_meta"], tot["last_meta"]]
    cov = {"states": s1["states"] + s2["states"] + s3["states"], "transitions": s1["transitions"] + s2["transitions"] + s3["transitions"],
           "model_runs": [{"mode": "ser+faults", **s1}, {"mode": "hostile+faults", **s2}, {"mode": "bytes+faults", **s3}],
           "traces_validated_against_impl": n, "executions_that_hit_the_injected_fault": nfault, "programs": len(sel), "program_names": [p["name"] for p in sel],
           "samples": [{"kind": meta[0][0], "prog": meta[0][1], "mode0": meta[0][2], "fault_at": meta[0][3], "modes": meta[0][5]}, {"kind": meta[-1][0], "prog": meta[-1][1], "mode0": meta[-1][2], "fault_at": meta[-1][3], "data": meta[-1][4], "modes": meta[-1][5]}],
           "exhaustive": False,
           "explanation": "programs with chunked sections / nested structs / switches x both entry modes x bounded objects or corrupted bytes x failure injected at each of the first primitive calls"}
    return v.finish(cov, ["the corpus bounds 'all programs'", "faults are injected at primitive EoWriter/EoReader calls (add_*/get_*/next_chunk)"])


def selftest(tier):
    common.SELFTEST = True
    rc = run("quick", corrupt=True)
    print("SELFTEST OK: corrupted observation rejected" if rc == 1 else "SELFTEST FAILED")
    return 0 if rc == 1 else 2


def replay(path):
    print(json.dumps(json.loads(open(path).read())["case"], indent=1)[:6000])
    return 0
