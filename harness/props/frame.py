"""FRAME (growth, not one of the listed properties) - the wire frame of one packet and the reassembly of frames from a byte stream.

Model: spec/EoFrame.tla - frame = EO-short length prefix ++ payload; payload = encrypted (action, family, sequence number as char or
short, body), 0xFF 0xFF init packets raw; Unframe for a receiver that knows the number it expects.  MC_EoFrame: FrameRoundTrip and
LengthWireSafe for every packet x multiple of the instance, and the reassembly machine (Arrive(k) / Deliver) over every sequence of
up to 3 packets and EVERY fragmentation of the stream, with DeliveredPrefix, AllDelivered, Decoded.  Binding: R - simulated
behaviours (packets, multiple, fragment sizes) are replayed on a receiver written with the real primitives (decode_number for the
prefix, EoReader / encryption functions for the payload); frames, delivered payloads and decoded packets must be the model's."""
from __future__ import annotations

import json

from ..common import Verdict, imp, load_eolib_stubbed, require, run_tlc, scratch, seed, snapshot_repo
from .. import common
from .session import real_frame, real_unframe

PROP = "FRAME"


def _replay(lib, b):
    num = lib[6]
    sent, mult = b["sent"], b["mult"]
    frames = [real_frame(lib, p[0], p[1], p[2], p[3], mult) for p in sent]
    if frames != b["frames"]:
        k = next(i for i, (x, y) in enumerate(zip(frames, b["frames"])) if x != y)
        return f"frame of packet {sent[k]} with multiple {mult}: real primitives give {frames[k]}, model {b['frames'][k]}"
    stream = [x for f in frames for x in f]
    buf, out, pos = [], [], 0

    def drain():
        while len(buf) >= 2 and len(buf) >= 2 + num.decode_number(bytes(buf[:2])):
            ln = num.decode_number(bytes(buf[:2]))
            out.append(buf[2:2 + ln])
            del buf[:2 + ln]
    for k in b["frags"]:
        buf.extend(stream[pos:pos + k])
        pos += k
        drain()
    if out != b["out"]:
        return f"fragments {b['frags']}: the receiver delivered {out}, model {b['out']}"
    if buf or pos != len(stream):
        return f"fragments {b['frags']}: {len(buf)} byte(s) left in the buffer, {len(stream) - pos} not yet arrived"
    for p, pay in zip(sent, out):
        ln, action, family, seq, body = real_unframe(lib, list(num.encode_number(len(pay))[:2]) + pay, p[2], mult)
        if [action, family, seq, body] != p:
            return f"payload {pay} decodes to {[action, family, seq, body]}, sent {p}"
    return None


def run(tier, corrupt=False):
    v = Verdict(PROP, tier)
    r = run_tlc("MC_EoFrame", "MC_EoFrame.cfg", workers=8, coverage=True, timeout=1800)
    require(r.ok, "model-level failure in MC_EoFrame:\n" + r.tail())
    for a in ("Arrive", "Deliver"):
        require(r.coverage.get(a, 0) > 0, f"vacuity: {a} never fired")
    nsim = 400 if tier == "quick" else 6000
    rs = run_tlc("MC_EoFrame", "MC_EoFrame_sim.cfg", workers=1, simulate=f"num={nsim}", depth=60, extra=["-seed", str(seed() + 11)], timeout=1800)
    behs = {}
    for p in rs.printed:
        if isinstance(p, dict) and "frags" in p:
            behs[json.dumps(p, sort_keys=True)] = p
    behs = list(behs.values())
    require(len(behs) >= 50, f"too few reassembly behaviours emitted ({len(behs)})")
    with scratch("frame-") as tmp:
        load_eolib_stubbed(snapshot_repo(tmp))
        lib = (imp("eolib.packet.sequence_start"), imp("eolib.packet.packet_sequencer"), imp("eolib.encrypt.server_verification_utils"),
               imp("eolib.encrypt.encryption_utils"), imp("eolib.data.eo_writer").EoWriter, imp("eolib.data.eo_reader").EoReader,
               imp("eolib.data.number_encoding_utils"))
        for bi, b in enumerate(behs):
            if corrupt and bi == 3:
                b = json.loads(json.dumps(b))
                b["out"][0] = b["out"][0][:-1] + [b["out"][0][-1] ^ 1]
            bad = _replay(lib, b)
            if bad:
                v.violation(f"reassembly sent={b['sent']} mult={b['mult']} frags={b['frags']}", bad, {"behaviour": b})
    cov = {"states": r.distinct + rs.distinct, "transitions": r.generated + rs.generated, "traces_validated_against_impl": len(behs),
           "model_runs": [{"module": "MC_EoFrame", "distinct_states": r.distinct, "invariants": ["OneFrame", "DeliveredPrefix", "AllDelivered", "Decoded"]}],
           "samples": [{"sent": behs[0]["sent"], "mult": behs[0]["mult"], "frags": behs[0]["frags"]}], "exhaustive": False,
           "explanation": "growth: frames and stream reassembly composed of library primitives; exhaustive over fragmentations of up to 3 packets, simulated behaviours replayed"}
    return v.finish(cov, ["the frame layout is the author's reading of the EO wire protocol (the library has no network layer)"])


def selftest(tier):
    common.SELFTEST = True
    rc = run("quick", corrupt=True)
    print("SELFTEST OK" if rc == 1 else "SELFTEST FAILED")
    return 0 if rc == 1 else 2


def replay(path):
    print(json.dumps(json.loads(open(path).read())["case"], indent=1)[:3000])
    return 0
