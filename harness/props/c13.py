"""C13 - packet sequencer yields start + (n mod 10) under any update history.

Model: spec/Sequencer.tla.  TLC: MC_Sequencer - all histories n1*next,set,n2*next,set,... with runs up to 12 (24 thorough)
(past a wrap-around) and 2 updates among 8 starts (incl. a user-defined start whose value is not available yet) of all four SequenceStart classes, two peers in lockstep;
action properties Lockstep/UpdateKeepsCounter.  Binding: R - every maximal TLC history replayed on the real
PacketSequencer, every return value compared; V - random long histories recorded from the real class and
validated by Trace_Sequencer.
"""
from __future__ import annotations

import json
import random

from ..common import MachineryError, Verdict, imp, load_eolib_stubbed, require, run_apalache, run_tlc, scratch, seed, snapshot_repo
from ..trace import validate
from .. import common

PROP = "C13"


_PENDING = {}


def _pending_cls(ss):
    """A user-defined SequenceStart whose value is not available yet (Sequencer!Unreadable)."""
    if id(ss) not in _PENDING:
        class PendingStart(ss.SequenceStart):
            def __init__(self):
                self.resolved = None

            @property
            def value(self):
                if self.resolved is None:
                    raise RuntimeError("sequence start not received yet")
                return self.resolved
        _PENDING[id(ss)] = PendingStart
    return _PENDING[id(ss)]


def _mk_start(ss, kind, value):
    if kind == "pending":
        return _pending_cls(ss)()
    if kind == "simple":
        return ss.SequenceStart.zero() if value == 0 else ss.SimpleSequenceStart(value)
    if kind == "account":
        return ss.AccountReplySequenceStart.from_value(value)
    if kind == "init":
        seq1 = max(0, min(252, (value + 13) // 7))
        seq2 = value + 13 - 7 * seq1
        s = ss.InitSequenceStart.from_init_values(seq1, seq2)
    elif kind == "ping":
        s = ss.PingSequenceStart.from_ping_values(value + 3, 3)
    else:
        raise MachineryError(kind)
    if s.value != value:
        raise MachineryError(f"harness could not build a {kind} start with value {value} (got {s.value}); C12's business, not C13's")
    return s


def _replay(ss, ps, hist):
    """Returns None or (index, expected, observed)."""
    h0 = hist[0]
    # all start objects of the history exist before it runs (a start is a value: creating another one does not change it)
    prebuilt = {i: _mk_start(ss, ev["kind"], ev["value"]) for i, ev in enumerate(hist) if ev["op"] in ("init", "set")}
    seqr = ps.PacketSequencer(prebuilt[0])
    cur = None
    for i, ev in enumerate(hist[1:], 1):
        if ev["op"] == "next":
            got = seqr.next_sequence()
            if got != ev["ret"]:
                return i, ev["ret"], got
        elif ev["op"] == "next_fail":
            try:
                got = seqr.next_sequence()
                return i, "an exception (the start cannot be read)", got
            except RuntimeError:
                pass
        elif ev["op"] == "resolve":
            cur.resolved = ev["value"]
        else:
            cur = prebuilt[i]
            try:
                seqr.set_sequence_start(cur)
            except Exception as e:      # SetStart is always enabled in the model
                return i, "the update to be accepted", f"{type(e).__name__}: {e}"
    return None


def _hist_key(hist, upto):
    parts = []
    run = 0
    for ev in hist[:upto + 1]:
        if ev["op"] == "next":
            run += 1
        else:
            if run:
                parts.append(f"next*{run}")
            run = 0
            parts.append(f"{ev['op']}({ev.get('kind', '')},{ev.get('value', '')})")
    if run:
        parts.append(f"next*{run}")
    return " ".join(parts)


def _record(ss, ps, rng, n):
    kinds = ["simple", "account", "init", "ping"]
    def rs():
        k = rng.choice(kinds)
        if k == "simple" and rng.random() < 0.3:
            return k, rng.choice([-1, -9, 64000, 64008, 64009, 2 ** 31, rng.randrange(-100, 10 ** 6)])
        if k == "init" and rng.random() < 0.1:
            return k, rng.randrange(-13, 0)
        return k, (rng.randrange(0, 240) if k == "account" else rng.randrange(0, 1757))
    k, val = rs()
    seqr = ps.PacketSequencer(_mk_start(ss, k, val))
    ev = []
    p_set = rng.choice([0.02, 0.1, 0.3]) if n <= 200 else rng.choice([0.0, 0.002, 0.01])
    pending = None
    for _ in range(n):
        if pending is not None and rng.random() < 0.5:
            pending.resolved = rng.randrange(0, 1757)
            ev.append({"op": "resolve", "value": pending.resolved})
            pending = None
        elif rng.random() < p_set:
            if rng.random() < 0.15:
                pending = _mk_start(ss, "pending", 0)
                try:
                    seqr.set_sequence_start(pending)
                    ev.append({"op": "set", "kind": "pending", "value": 0})
                except Exception as e:      # no action of the model: the trace is rejected at this event
                    ev.append({"op": "set_raised", "kind": "pending", "value": 0, "exc": type(e).__name__})
                    break
                continue
            pending = None
            k2, v2 = rs()
            try:
                seqr.set_sequence_start(_mk_start(ss, k2, v2))
                ev.append({"op": "set", "kind": k2, "value": v2})
            except MachineryError:
                raise
            except Exception as e:
                ev.append({"op": "set_raised", "kind": k2, "value": v2, "exc": type(e).__name__})
                break
        else:
            try:
                ev.append({"op": "next", "ret": seqr.next_sequence()})
            except RuntimeError as e:
                ev.append({"op": "next_fail", "exc": str(e)[:40]})
    return {"init": {"kind": k, "value": val}, "events": ev}


def run(tier, corrupt=False):
    v = Verdict(PROP, tier)
    cfg = "MC_Sequencer.cfg" if tier == "quick" else "MC_Sequencer_thorough.cfg"
    r = run_tlc("MC_Sequencer", cfg, workers=1, coverage=True, timeout=3000)
    require(r.ok, "model-level failure in MC_Sequencer (spec problem):\n" + r.tail())
    for a in ("DoNext", "DoSet", "DoFail", "DoResolve"):
        require(r.coverage.get(a, 0) > 0, f"vacuity: {a} never fired")
    hists = [p["hist"] for p in r.printed if isinstance(p, dict) and "hist" in p]
    require(len(hists) > 100, "TLC emitted no histories")
    cov = {"states": r.distinct, "transitions": r.generated,
           "model_runs": [{"module": "MC_Sequencer", "cfg": cfg, "distinct_states": r.distinct,
                           "properties": ["TypeOK", "CounterTracksServed", "TwoPeers", "Lockstep", "UpdateKeepsCounter"],
                           "action_counts": {a: r.coverage.get(a) for a in ("DoNext", "DoSet", "DoSetPending", "DoFail", "DoResolve")}}]}
    # unbounded histories: IndInv (counter = served mod 10, every number so far in lockstep) is inductive (Apalache)
    ok0, _, w0 = run_apalache("Apa_Sequencer", "IndInv", init="Init", length=0)
    ok1, _, w1 = run_apalache("Apa_Sequencer", "IndInv", init="IndInit", length=1)
    okn, _, _ = run_apalache("Apa_Sequencer", "NotInductive", init="IndInit", length=1)
    require(ok0 and ok1, "Apalache: IndInv of Apa_Sequencer is not inductive (spec problem)")
    require(not okn, "Apalache leg vacuous: a non-inductive invariant was accepted")
    cov["apalache"] = [{"theorem": "IndInv inductive: Init => IndInv, IndInv /\\ Next => IndInv' (unbounded histories, arbitrary start values)", "wall_s": round(w0 + w1, 1)}]
    with scratch("c13-") as tmp:
        load_eolib_stubbed(snapshot_repo(tmp))
        ss = imp("eolib.packet.sequence_start")
        ps = imp("eolib.packet.packet_sequencer")
        # R: replay TLC's maximal histories (each covers all its prefixes step by step)
        steps = 0
        for hi, hist in enumerate(hists):
            if corrupt and hi == 17:
                hist = json.loads(json.dumps(hist))
                nxt = [e for e in hist if e["op"] == "next"]
                nxt[len(nxt) // 2]["ret"] += 1
            bad = _replay(ss, ps, hist)
            steps += len(hist) - 1
            if bad:
                i, exp, got = bad
                v.violation("history " + _hist_key(hist, i), f"next_sequence returned {got}, model says {exp} (event {i})",
                            {"kind": "R", "hist": hist[:i + 1], "expected": exp, "observed": got})
        # V: long random histories validated by Trace_Sequencer
        rng = random.Random(seed() * 7919 + 13)
        ntr = 3000 if tier == "quick" else 20000
        traces = [_record(ss, ps, rng, rng.randrange(1, 201)) for _ in range(ntr)]
        # a few very long histories: hidden state that only wraps after hundreds of requests (several passes over 253 / 256 / 1000)
        traces += [_record(ss, ps, rng, rng.randrange(600, 2600)) for _ in range(12 if tier == "quick" else 100)]
        if corrupt:
            e = next(e for e in traces[5]["events"] if e["op"] == "next")
            e["ret"] += 10
        res, acc, rej = validate("Trace_Sequencer", traces, tmp)
        for rj in rej:
            t = traces[rj["tid"] - 1]
            hist = [dict(op="init", **t["init"])] + t["events"]
            at = rj["at"]
            v.violation("history " + _hist_key(hist, at), f"recorded event {at} {t['events'][at - 1]} is not a step of Sequencer from model state {rj.get('model')}",
                        {"kind": "V", "init": t["init"], "events": t["events"][:at], "model": rj.get("model")})
        cov["states"] += res.distinct
        cov["transitions"] += res.generated
    cov.update({"traces_validated_against_impl": len(hists) + acc + len(rej), "replayed_histories": len(hists), "replayed_steps": steps,
                "recorded_traces": len(traces), "recorded_events": sum(len(t["events"]) for t in traces), "rejected": len(rej),
                "samples": [{"R": _hist_key(hists[len(hists) // 2], len(hists[0]))}, {"V": traces[0]["events"][:12]}],
                "exhaustive": False,
                "explanation": "R is exhaustive for the shape n1*next,set,n2*next,set,n3*next (runs 0..12, 5 starts); V samples long histories"})
    return v.finish(cov, ["TLC semantics", "SequenceStart objects are only observed through .value (C12 covers their construction)"])


def selftest(tier):
    common.SELFTEST = True
    rc = run("quick", corrupt=True)
    print("SELFTEST OK: corrupted return values rejected" if rc == 1 else "SELFTEST FAILED")
    return 0 if rc == 1 else 2


def replay(path):
    case = json.loads(open(path).read())["case"]
    with scratch("c13-") as tmp:
        load_eolib_stubbed(snapshot_repo(tmp))
        ss = imp("eolib.packet.sequence_start")
        ps = imp("eolib.packet.packet_sequencer")
        hist = case["hist"] if case["kind"] == "R" else [dict(op="init", **case["init"])] + case["events"]
        seqr = ps.PacketSequencer(_mk_start(ss, hist[0]["kind"], hist[0]["value"]))
        cur = None
        for ev in hist[1:]:
            if ev["op"] in ("next", "next_fail"):
                try:
                    print("next ->", seqr.next_sequence(), "recorded/model", ev.get("ret", "an exception"))
                except RuntimeError as e:
                    print("next -> raised", e, "recorded/model", ev.get("ret", "an exception"))
            elif ev["op"] == "resolve":
                cur.resolved = ev["value"]
                print("resolve", ev["value"])
            else:
                cur = _mk_start(ss, ev["kind"], ev["value"])
                seqr.set_sequence_start(cur)
                print("set", ev["kind"], ev["value"])
    return 0
