"""Shared pieces of the generated-code checks (C01 C03 C15 C16 C19)."""
from __future__ import annotations

import json


def strip_kinds(o):
    """Drop the projection's _kind_* keys (array container types, used by C19 only)."""
    if isinstance(o, dict):
        return {k: strip_kinds(v) for k, v in o.items() if not k.startswith("_kind_")}
    if isinstance(o, list):
        return [strip_kinds(x) for x in o]
    return o


def strip_sizes(o):
    if isinstance(o, dict):
        return {k: strip_sizes(v) for k, v in o.items() if k != "_size" and not k.startswith("_kind_")}
    if isinstance(o, list):
        return [strip_sizes(x) for x in o]
    return o


def short(o, n=260):
    return json.dumps(o, sort_keys=True)[:n]


def mode_violations(calls):
    """C15 predicate on the observed entry/exit modes of every generated call."""
    bad = []
    for q, kind, entry, exit_, raised in calls:
        if entry != exit_:
            bad.append({"cls": q, "call": "serialize" if kind == "ser" else "deserialize", "entry": entry, "exit": exit_, "raised": raised})
    return bad
