"""C16 - invalid objects are refused, never silently mis-serialized.

Model: spec/ProtoInvalid.tla enumerates, for a valid object, every single declaration-violating change at any field at
any nesting depth; MC_Proto mode "invalid" serializes every valid object of the lossless domains, then every one of its
violated variants with ProtoSer in given-object mode; invariant PRefused (the model never completes a violated object).
Binding: R - every violated object TLC emits is built with the generated constructor and serialized; judged on the
observation: the outcome must be an exception that is a SerializationError or a ValueError (a constructor that refuses to
build the object counts as refused)."""
from __future__ import annotations

import json

from ..common import MachineryError, Verdict, require, scratch
from ..corpus import library
from ..proto import default_corpus, full_corpus, prepare_world, run_drivers_parallel
from .. import common
from ._proto_common import short
from .c02 import collect

PROP = "C16"
STRAY_KEY = "shape=switch-without-default,unmatched-value,case-data-present"


def run(tier, corrupt=False):
    v = Verdict(PROP, tier)
    types = library()
    with scratch("c16-") as tmp:
        progs = full_corpus(tmp, tier)
        recs, stats = collect(tier, tmp, progs, types, "invalid", rich=False, invariants=("PRefused",), tag="inv")
        recs = [r for r in recs if r["kind"] == "inv"]
        require(len(recs) > 300, f"too few violated objects from TLC ({len(recs)})")
        kinds = {}
        for r in recs:
            k = " ".join(w for w in r["what"].split() if not w.endswith(".") and "." not in w and "[" not in w)[-60:]
            kinds[k] = kinds.get(k, 0) + 1
        with scratch("c16w-") as wt:
            src, accepted, rejected = prepare_world(wt, progs, types)
            acc = {p["name"] for p in accepted}
            kept = [r for r in recs if r["prog"] in acc]
            # every violated object twice: enum-typed fields as enum instances, and as the plain integers the constructors equally accept
            kept = kept + [dict(r, _enum_as_int=True) for r in kept if any(t.get("kind") == "enum" for t in types.values()) and "Color" in json.dumps(r["obj"]) + json.dumps([p for p in progs if p["name"] == r["prog"]][:1])]
            cases = [{"kind": "ser", "prog": r["prog"], "san0": False, "fuel": -1, "obj": r["obj"], "salt": 0, "enum_as_int": bool(r.get("_enum_as_int"))} for r in kept]
            imp, results = run_drivers_parallel(src, wt, accepted, types, cases)
            if imp:
                v.violation("generated package not importable", imp.strip().splitlines()[-1], {"trace": imp})
                results = []
            n = nctor = 0
            for r, o in zip(kept, results):
                n += 1
                if "harness_error" in o:
                    raise MachineryError(o["harness_error"])
                if corrupt and n == 9:
                    o = dict(o, exc="", ctor_exc="")
                if o["ctor_exc"]:
                    nctor += 1
                    continue
                case = {"prog": r["prog"], "what": r["what"], "obj": r["obj"], "observed": {"exc": o["exc"], "bytes": o["bytes"]}}
                if o["exc"] in ("SerializationError", "ValueError"):
                    continue
                if r["stray"]:
                    key = STRAY_KEY
                else:
                    key = f"{r['prog']}: {r['what']} obj={short(r['obj'], 200)}"
                if o["exc"] == "":
                    v.violation(key, f"{r['prog']}: object with {r['what']} was serialized completely to {o['bytes']} instead of being refused", case)
                else:
                    v.violation(key, f"{r['prog']}: object with {r['what']} raised {o['exc']} ({o.get('exc_msg')}), not SerializationError/ValueError", case)
    cov = dict(stats)
    cov.update({"traces_validated_against_impl": n, "refused_by_constructor": nctor, "violation_kinds": kinds, "programs": len(progs),
                "samples": [{"prog": kept[0]["prog"], "what": kept[0]["what"], "obj": kept[0]["obj"]}, {"prog": kept[-1]["prog"], "what": kept[-1]["what"], "obj": kept[-1]["obj"]}],
                "exhaustive": False,
                "explanation": "every single violating change (ProtoInvalid!Mutations) of every valid object of the lossless domains, for every program of the corpus"})
    return v.finish(cov, ["the corpus bounds 'all programs'", "None elements inside arrays and values of the wrong Python type are outside the property's list"])


def selftest(tier):
    common.SELFTEST = True
    rc = run("quick", corrupt=True)
    print("SELFTEST OK: corrupted observation rejected" if rc == 1 else "SELFTEST FAILED")
    return 0 if rc == 1 else 2


def replay(path):
    print(json.dumps(json.loads(open(path).read())["case"], indent=1)[:6000])
    return 0
