"""C07 - EO number codec is a wire-safe bijection on its whole range.

Model: spec/EoNumbers.tla (+EoNumbersR).  TLC: MC_EoNumbers (every n < 253^2 quick / 253^3 thorough),
MC_EoNumbersR (whole range R^4 for R = 2..6).  Apalache: whole range 253^4.  Binding: pattern B,
tables of the real encode_number/decode_number checked by Bulk_EoNumbers.
"""
from __future__ import annotations

import itertools
import json
import random

from ..bulk import load_block, parallel_blocks, run_bulk
from ..common import (MachineryError, Verdict, imp, limbs, load_eolib_stubbed, require, run_apalache, run_tlc,
                      scratch, seed, snapshot_repo, unlimbs)

PROP = "C07"
INT_MAX = 253 ** 4
_ENC = _DEC = None
STRATA = [0, 1, 2, 126, 127, 251, 252]
BSTRATA = [0, 1, 2, 127, 253, 254, 255]


def _num(d):
    return d[0] + 253 * d[1] + 253 ** 2 * d[2] + 253 ** 3 * d[3]


def _enc_all(values):
    """encode_number over values; the results are HELD until all calls are made (a result is a value, not a view of shared state).
    An exception or a malformed result is recorded as [0, 0, 0, 0], which no number encodes to."""
    held = []
    for val in values:
        try:
            held.append(_ENC(val))
        except Exception:
            held.append(None)
    out = []
    for r in held:
        try:
            lst = [int(x) for x in r]
        except Exception:
            lst = []
        out.append(lst if len(lst) == 4 and all(0 <= x <= 255 for x in lst) else [0, 0, 0, 0])
    return out


def _dec(arg):
    try:
        r = _DEC(arg)
        return limbs(r) if isinstance(r, int) and not isinstance(r, bool) else [-1, 1]
    except Exception:
        return [-1, 0]           # negative: no byte string decodes to it


def _gen(spec):
    kind = spec["kind"]
    if kind == "enc_exh":
        base, n = spec["base"], spec["n"]
        return {"kind": kind, "base": limbs(base), "rows": _enc_all(range(base, base + n))}
    if kind == "enc":
        return {"kind": kind, "rows": [limbs(v) + e for v, e in zip(spec["values"], _enc_all(spec["values"]))]}
    if kind == "enc_stride":
        vals = range(spec["start"], spec["stop"], spec["step"])
        return {"kind": "enc", "rows": [limbs(v) + e for v, e in zip(vals, _enc_all(vals))]}
    if kind == "dec_exh":
        ln, base, n = spec["len"], spec["base"], spec["n"]
        rows = []
        for idx in range(base, base + n):
            s = bytes((idx >> (8 * j)) & 0xFF for j in range(ln))
            rows.append(_dec(s))
        return {"kind": kind, "len": ln, "base": base, "rows": rows}
    if kind == "dec":
        return {"kind": kind, "rows": [[list(s)] + _dec(bytes(s)) for s in spec["strings"]]}
    if kind == "enc_hist":
        # the codec is a FUNCTION: calls outside the range (whatever they do) between the recorded calls leave no trace
        rows = []
        for i, val in enumerate(spec["values"]):
            for bad in spec["outside"][i % len(spec["outside"])]:
                try:
                    _ENC(bad)
                except Exception:
                    pass
            if i % 3 == 0:
                # ... nor does a DEcode of another spelling of the same number just before (all four digits written out, no filler)
                try:
                    _DEC(bytes([(val // 253 ** k) % 253 + 1 for k in range(4)]))
                except Exception:
                    pass
            rows.append(limbs(val) + _enc_all([val])[0])
        return {"kind": "enc", "rows": rows}
    if kind == "dec_hist":
        # ... and the caller may hand in the same (refilled) mutable buffer every time
        rows = []
        bufs = {"bytearray": bytearray(), "list": []}
        for i, st in enumerate(spec["strings"]):
            how = ("bytearray", "list", "bytes")[(i // 5) % 3]      # runs of consecutive calls with the same object
            if i % 4 == 0 and 0 < len(st) < 4 and all(1 <= b <= 253 for b in st):
                # an ENcode just before whose result starts with these very bytes (a larger number with the same low digits)
                try:
                    _ENC(sum((b - 1) * 253 ** k for k, b in enumerate(st)) + 253 ** len(st) * (1 + i % 7))
                except Exception:
                    pass
            if how == "bytes":
                arg = bytes(st)
            else:
                arg = bufs[how]
                arg[:] = st
            rows.append([list(st)] + _dec(arg))
        return {"kind": "dec", "rows": rows}
    raise MachineryError(kind)


def _specs(tier, rng):
    specs = []
    # encode, exhaustive ranges
    top = 65536 if tier == "quick" else 253 ** 3
    for base in range(0, top, 65536):
        specs.append({"kind": "enc_exh", "base": base, "n": min(65536, top - base)})
    # encode, strata of the 4-byte range
    vals = [_num(d) for d in itertools.product(STRATA, repeat=4)]
    for pos in range(4):
        for rest in itertools.product(STRATA, repeat=3):
            for x in range(253):
                d = list(rest)
                d.insert(pos, x)
                vals.append(_num(d))
    vals += [253 ** k + o for k in range(1, 5) for o in (-2, -1, 0, 1) if 0 <= 253 ** k + o < INT_MAX]
    nrand = 200_000 if tier == "quick" else 1_000_000
    vals += [rng.randrange(INT_MAX) for _ in range(nrand)]
    for i in range(0, len(vals), 65536):
        specs.append({"kind": "enc", "values": vals[i:i + 65536]})
    if tier == "thorough":
        # stride-251 sweep of the whole 4-byte range (251 is coprime to 253: every digit pattern drifts)
        total = (INT_MAX - 253 ** 3) // 251
        per = 65536 * 251
        for start in range(253 ** 3, INT_MAX, per):
            specs.append({"kind": "enc_stride", "start": start, "stop": min(INT_MAX, start + per), "step": 251})
    # decode
    for ln in (0, 1, 2) + ((3,) if tier == "thorough" else ()):
        total = 256 ** ln
        for base in range(0, total, 65536):
            specs.append({"kind": "dec_exh", "len": ln, "base": base, "n": min(65536, total - base)})
    strs = []
    for ln in (3, 4, 5):
        strs += [list(t) for t in itertools.product(BSTRATA, repeat=ln)]
    strs += [[rng.randrange(256) for _ in range(rng.randrange(0, 7))] for _ in range(100_000 if tier == "quick" else 500_000)]
    for i in range(0, len(strs), 65536):
        specs.append({"kind": "dec", "strings": strs[i:i + 65536]})
    # call histories: out-of-range calls interleaved, one mutable buffer reused
    outside = [[-1], [INT_MAX], [-5, INT_MAX + 7], [253 ** 5], [], [INT_MAX - 1, -(253 ** 2)], [2 ** 64]]
    hv = [rng.choice([rng.randrange(253), rng.randrange(253 ** 2), rng.randrange(253 ** 3), rng.randrange(INT_MAX)]) for _ in range(20_000)]
    specs.append({"kind": "enc_hist", "values": hv, "outside": outside})
    hs = [[rng.choice(BSTRATA + [rng.randrange(256)]) for _ in range(rng.randrange(0, 6))] for _ in range(30_000)]
    specs.append({"kind": "dec_hist", "strings": hs})
    return specs


def _describe(block, idx):
    kind = block["kind"]
    r = block["rows"][idx - 1]
    if kind == "enc":
        return f"encode_number n={unlimbs(r[:2])}", {"fn": "encode_number", "n": unlimbs(r[:2]), "observed": r[2:]}
    if kind == "enc_exh":
        n = unlimbs(block["base"]) + idx - 1
        return f"encode_number n={n}", {"fn": "encode_number", "n": n, "observed": r}
    if kind == "dec":
        return f"decode_number bytes={r[0]}", {"fn": "decode_number", "bytes": r[0], "observed": unlimbs(r[1:])}
    ln, i = block["len"], block["base"] + idx - 1
    s = [(i >> (8 * j)) & 0xFF for j in range(ln)]
    return f"decode_number bytes={s}", {"fn": "decode_number", "bytes": s, "observed": unlimbs(r)}


def _model(tier, cov):
    cfg = "MC_EoNumbers.cfg" if tier == "quick" else "MC_EoNumbers_thorough.cfg"
    r1 = run_tlc("MC_EoNumbers", cfg)
    require(r1.ok, "model-level failure in MC_EoNumbers (spec problem, not a code verdict):\n" + r1.tail())
    r2 = run_tlc("MC_EoNumbersR", "MC_EoNumbersR.cfg", workers=4)
    require(r2.ok, "model-level failure in MC_EoNumbersR:\n" + r2.tail())
    cov["states"] = r1.distinct + r2.distinct
    cov["transitions"] = r1.generated + r2.generated
    cov["model_runs"] = [
        {"module": "MC_EoNumbers", "cfg": cfg, "distinct_states": r1.distinct, "wall_s": round(r1.wall, 1),
         "invariants": ["InvRoundTrip", "InvWireSafe", "InvPrefix", "InvLimbAgree", "InvInRange"]},
        {"module": "MC_EoNumbersR", "distinct_states": r2.distinct, "wall_s": round(r2.wall, 1),
         "note": "whole range R^4 for R=2..6"}]
    thms = ["ThmRoundTrip", "ThmWireSafe"] + (["ThmPrefix"] if tier == "thorough" else [])
    apa = []
    for t in thms:
        ok, out, wall = run_apalache("Apa_EoNumbers", t, timeout=900)
        require(ok, f"Apalache refutes {t} on the model (spec problem)")
        apa.append({"theorem": t, "range": "0 <= n < 253^4", "wall_s": round(wall, 1)})
    ok, _, _ = run_apalache("Apa_EoNumbers", "ThmFalse", timeout=300)
    require(not ok, "Apalache accepted a false theorem - symbolic leg is vacuous")
    cov["apalache"] = apa


def run(tier, corrupt=False):
    v = Verdict(PROP, tier)
    cov = {}
    _model(tier, cov)
    global _ENC, _DEC
    with scratch("c07-") as tmp:
        src = snapshot_repo(tmp)
        load_eolib_stubbed(src)
        m = imp("eolib.data.number_encoding_utils")
        _ENC, _DEC = m.encode_number, m.decode_number
        rng = random.Random(seed() * 7919 + 7)
        specs = _specs(tier, rng)
        total_rows = 0
        bad_total = 0
        samples = []
        # staged so that the thorough tier never holds more than ~300 blocks on disk
        for stage in [specs[i:i + 256] for i in range(0, len(specs), 256)]:
            with scratch("c07blk-") as d:
                nb, rows = parallel_blocks(d, _gen, stage)
                if corrupt:
                    b = load_block(d, 1)
                    b["rows"][100][0] ^= 1
                    (d / "block_1.json").write_text(json.dumps(b))
                res, checked, bad = run_bulk("Bulk_EoNumbers", d, nb)
                require(checked == rows, "row count mismatch between harness and TLC")
                total_rows += checked
                cov["states"] += res.distinct
                cov["transitions"] += res.generated
                if not samples:
                    b1 = load_block(d, 1)
                    samples.append({"block_kind": b1["kind"], "row_1000": _describe(b1, 1000)[1]})
                    bl = load_block(d, nb)
                    samples.append({"block_kind": bl["kind"], "row_1": _describe(bl, 1)[1]})
                for b, idxs in bad:
                    blk = load_block(d, b)
                    for i in idxs[:5]:
                        key, case = _describe(blk, i)
                        v.violation(key, "real function disagrees with EoNumbers spec (Encode/Decode)", case)
                    bad_total += len(idxs)
            corrupt = False if corrupt and bad_total else corrupt
    cov.update({
        "traces_validated_against_impl": total_rows,
        "rows_disagreeing": bad_total,
        "samples": samples,
        "exhaustive": False,
        "strata": {
            "encode_exhaustive_below": 65536 if tier == "quick" else 253 ** 3,
            "encode_4byte": "digit strata + per-digit sweeps + random" + (" + stride-251 sweep" if tier == "thorough" else ""),
            "decode_exhaustive_lengths": [0, 1, 2] + ([3] if tier == "thorough" else []),
        },
        "explanation": "model proved on the whole range (Apalache) and enumerated (TLC); the Python functions are bound "
                       "by table rows: exhaustive on the small ranges, stratified on the 4-byte range",
    })
    return v.finish(cov, ["TLC/Apalache semantics of Integers", "binary split n -> (n>>16, n&0xFFFF) in the harness",
                          "4-byte range of the implementation covered by strata, not exhaustively"])


def selftest(tier):
    """A corrupted recorded row must be rejected."""
    from .. import common
    common.SELFTEST = True
    rc = run("quick", corrupt=True)
    if rc == 1:
        print("SELFTEST OK: corrupted row rejected")
        return 0
    print("SELFTEST FAILED: corrupted row accepted")
    return 2


def replay(path):
    case = json.loads(open(path).read())["case"]
    with scratch("c07-") as tmp:
        src = snapshot_repo(tmp)
        load_eolib_stubbed(src)
        m = imp("eolib.data.number_encoding_utils")
        if case["fn"] == "encode_number":
            print("encode_number", case["n"], "->", list(m.encode_number(case["n"])), "recorded", case["observed"])
        else:
            print("decode_number", case["bytes"], "->", m.decode_number(bytes(case["bytes"])), "recorded", case["observed"])
    return 0
