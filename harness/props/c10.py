"""C10 - packet-encryption primitives are lossless and exactly invertible.

Model: spec/Encrypt.tla; TLC: MC_Encrypt (all strings <= 6/7 over a 7-letter alphabet, pipelines of depth <= 3/4
applied and undone).  Binding: pattern B/V via Bulk_Encrypt - function tables and recorded pipelines from the
real in-place functions.
"""
from __future__ import annotations

import itertools
import json
import random

from ..bulk import load_block, parallel_blocks, run_bulk
from ..common import Verdict, imp, load_eolib_stubbed, require, run_tlc, scratch, seed, snapshot_repo
from .. import common

PROP = "C10"
_M = None
INV = {"interleave": "deinterleave", "deinterleave": "interleave", "flip_msb": "flip_msb", "swap_multiples": "swap_multiples"}


def _apply(buf, op, m):
    exc = ""
    try:
        if op == "swap_multiples":
            _M.swap_multiples(buf, m)
        else:
            getattr(_M, op)(buf)
    except Exception as e:      # whatever the function under test raises is an observation (the model knows only ValueError for m < 0)
        exc = type(e).__name__
    return exc


def _call(fn, s):
    a = bytearray(s)
    try:
        fn(a)
    except Exception:
        return [-1]          # no byte string: an exception from a total function disagrees with every model value
    return a


def _fn_row(s, m):
    a = _call(_M.interleave, s)
    b = _call(_M.deinterleave, s)
    c = _call(_M.flip_msb, s)
    d = bytearray(s)
    exc = _apply(d, "swap_multiples", m)
    return [s, m, list(a), list(b), list(c), list(d), exc]


def _pipe_row(s, ops):
    buf = bytearray(s)
    steps = []
    applied = []
    for op, m in ops:
        exc = _apply(buf, op, m)
        steps.append([op, m, list(buf), exc])
        if not exc:
            applied.append((op, m))
    for op, m in reversed(applied):
        exc = _apply(buf, INV[op], m)
        steps.append([INV[op], m, list(buf), exc])
    return [s, steps, 1]


def _gen(spec):
    if spec["kind"] == "fn":
        return {"kind": "fn", "rows": [_fn_row(s, m) for s, m in spec["cases"]]}
    return {"kind": "pipe", "rows": [_pipe_row(s, ops) for s, ops in spec["cases"]]}


def _specs(tier, rng):
    fn = []
    # every length up to a bound with identity data and constant data (position permutation must not depend on data)
    maxn = 40 if tier == "quick" else 200
    for n in range(0, maxn + 1):
        fn.append(([i % 256 for i in range(1, n + 1)], 0))
        fn.append(([7] * n, 7))
    # all 256 byte values for flip_msb
    fn.append((list(range(256)), 1))
    fn.append((list(range(255, -1, -1)), 128))
    # divisibility patterns: every layout of multiples / non-multiples up to a bound, for several m
    patlen = 8 if tier == "quick" else 11
    for m in (1, 2, 3, 5, 7, 128, 255, 256, 1000, 0, -1, -7):
        mm = abs(m) if m else 3
        mult_vals = [v for v in (0, mm, 2 * mm, 3 * mm) if v < 256] or [0]
        non_vals = [v for v in (1, mm + 1, 2 * mm + 1, 254) if v < 256 and v % mm != 0] or [1]
        for n in range(0, patlen + 1):
            for bits in range(1 << n):
                if m not in (2, 3) and n > 6 and bits % 5:
                    continue
                cnt = itertools.count()
                s = [mult_vals[next(cnt) % len(mult_vals)] if (bits >> i) & 1 else non_vals[i % len(non_vals)] for i in range(n)]
                fn.append((s, m))
    # long buffers (a map file is tens of kilobytes): beyond any recursion depth or table size one might assume
    # (multiples with short runs only: the model's run search is quadratic in the run length)
    for n in (1999, 2000, 2048, 3001):
        fn.append(([(i * 7 + 3) % 256 for i in range(n)], 3))
        fn.append(([rng.randrange(1, 256) for _ in range(n)], rng.choice([3, 7, 255])))
    nrand = 20_000 if tier == "quick" else 300_000
    for _ in range(nrand):
        n = rng.randrange(0, 513 if rng.random() < 0.05 else 40)
        style = rng.random()
        m = rng.choice([rng.randrange(0, 301), rng.randrange(1, 12), rng.randrange(-3, 2)])
        if style < 0.5 and m > 0:
            s = [rng.choice([0, m % 256, (2 * m) % 256, rng.randrange(256)]) for _ in range(n)]
        else:
            s = [rng.randrange(256) for _ in range(n)]
        fn.append((s, m))
    specs = [{"kind": "fn", "cases": fn[i:i + 8192]} for i in range(0, len(fn), 8192)]
    # pipelines
    pipes = []
    opset = [("interleave", 0), ("deinterleave", 0), ("flip_msb", 0), ("swap_multiples", 3), ("swap_multiples", 7),
             ("swap_multiples", 0), ("swap_multiples", -1)]
    seeds_ = [[], [0], [3, 6], [1, 2, 3], [6, 3, 9, 1], [0, 128, 3, 131, 255], [7, 14, 21, 3, 6, 9], [1, 3, 9, 7, 14, 2, 128]]
    depth = 3 if tier == "quick" else 4
    for s in seeds_:
        for d in range(0, depth + 1):
            for ops in itertools.product(opset, repeat=d):
                pipes.append((s, list(ops)))
    for _ in range(20_000 if tier == "quick" else 200_000):
        n = rng.randrange(0, 80)
        s = [rng.choice([rng.randrange(256), 0, 6, 12]) for _ in range(n)]
        ops = []
        for _ in range(rng.randrange(0, 9)):
            op = rng.choice(["interleave", "deinterleave", "flip_msb", "swap_multiples"])
            ops.append((op, rng.choice([rng.randrange(0, 14), rng.randrange(0, 300), -1]) if op == "swap_multiples" else 0))
        pipes.append((s, ops))
    specs += [{"kind": "pipe", "cases": pipes[i:i + 8192]} for i in range(0, len(pipes), 8192)]
    return specs


def _describe(blk, i):
    r = blk["rows"][i - 1]
    if blk["kind"] == "fn":
        return f"data={r[0]} multiple={r[1]}", {"kind": "fn", "s": r[0], "m": r[1],
                                                "observed": dict(zip(["interleave", "deinterleave", "flip_msb", "swap_multiples", "exc"], r[2:]))}
    return f"data={r[0]} pipeline={[(st[0], st[1]) for st in r[1]]}", {"kind": "pipe", "s": r[0], "steps": r[1]}


def run(tier, corrupt=False):
    global _M
    v = Verdict(PROP, tier)
    cfg = "MC_Encrypt.cfg" if tier == "quick" else "MC_Encrypt_thorough.cfg"
    r1 = run_tlc("MC_Encrypt", cfg, coverage=True)
    require(r1.ok, "model-level failure in MC_Encrypt (spec problem):\n" + r1.tail())
    for a in ("Grow", "Start", "Apply", "Undo"):
        require(r1.coverage.get(a, 0) > 0, f"vacuity: action {a} never fired in MC_Encrypt")
    ra = run_tlc("MC_EncryptAlgo", "MC_EncryptAlgo.cfg", workers=8, timeout=1800)
    require(ra.ok, "model-level failure in MC_EncryptAlgo (the PlusCal transcription of the loops disagrees with Encrypt.tla):\n" + ra.tail())
    cov = {"states": r1.distinct + ra.distinct, "transitions": r1.generated + ra.generated,
           "model_runs": [{"module": "MC_Encrypt", "cfg": cfg, "distinct_states": r1.distinct, "wall_s": round(r1.wall, 1),
                           "action_counts": {a: r1.coverage.get(a) for a in ("Grow", "Start", "Apply", "Undo")}},
                          {"module": "MC_EncryptAlgo", "distinct_states": ra.distinct,
                           "note": "PlusCal transcription of the three loops of encryption_utils.py computes Encrypt.tla's functions for all strings <= 5 over 5 letters"}]}
    with scratch("c10-") as tmp:
        load_eolib_stubbed(snapshot_repo(tmp))
        _M = imp("eolib.encrypt.encryption_utils")
        rng = random.Random(seed() * 7919 + 10)
        specs = _specs(tier, rng)
        total = bad_total = 0
        samples = []
        for stage in [specs[i:i + 128] for i in range(0, len(specs), 128)]:
            with scratch("c10blk-") as d:
                nb, rows = parallel_blocks(d, _gen, stage)
                if corrupt:
                    b = load_block(d, nb)
                    b["rows"][3][1][0][2] = list(reversed(b["rows"][3][1][0][2])) + [1]
                    (d / f"block_{nb}.json").write_text(json.dumps(b))
                    corrupt = False
                res, checked, bad = run_bulk("Bulk_Encrypt", d, nb)
                require(checked == rows, "row count mismatch")
                total += checked
                cov["states"] += res.distinct
                cov["transitions"] += res.generated
                if not samples:
                    samples = [_describe(load_block(d, 1), 15)[1], _describe(load_block(d, nb), 9)[1]]
                for b, idxs in bad:
                    blk = load_block(d, b)
                    for i in idxs[:5]:
                        key, case = _describe(blk, i)
                        v.violation(key, "encryption primitive disagrees with Encrypt spec / pipeline not undone", case)
                    bad_total += len(idxs)
    cov.update({"traces_validated_against_impl": total, "rows_disagreeing": bad_total, "samples": samples, "exhaustive": False,
                "strata": {"weave_lengths": f"every length 0..{40 if tier == 'quick' else 200} (identity and constant data)",
                           "flip": "all 256 byte values",
                           "swap": f"all multiple/non-multiple layouts up to length {8 if tier == 'quick' else 11} for m in 1,2,3 (sampled for others), m=0, negative m",
                           "pipelines": f"all pipelines of depth <= {3 if tier == 'quick' else 4} over 7 ops on 8 inputs + random"}})
    return v.finish(cov, ["TLC semantics", "data longer than the exhaustive bounds is sampled"])


def selftest(tier):
    common.SELFTEST = True
    rc = run("quick", corrupt=True)
    print("SELFTEST OK: corrupted step rejected" if rc == 1 else "SELFTEST FAILED")
    return 0 if rc == 1 else 2


def replay(path):
    global _M
    case = json.loads(open(path).read())["case"]
    with scratch("c10-") as tmp:
        load_eolib_stubbed(snapshot_repo(tmp))
        _M = imp("eolib.encrypt.encryption_utils")
        if case["kind"] == "fn":
            print(_fn_row(case["s"], case["m"]), "recorded", case["observed"])
        else:
            buf = bytearray(case["s"])
            for op, m, after, exc in case["steps"]:
                e = _apply(buf, op, m)
                print(op, m, list(buf), e, "recorded", after, exc)
    return 0
