"""C20 - the public namespace resolves every documented name to the right object.

Model: spec/PyImport.tla - CPython's import mechanics as a namespace-binding state machine (sys.modules, per-module
namespaces, a stack of executing module bodies; star-imports copy every public name bound at that moment, finished
sub-modules become attributes of their parent).  The package layout (MODS) is extracted from the real hand-written and
generated files with `ast` at every run.  TLC runs the machine for EVERY choice of the module a fresh interpreter imports
first and reports, per choice, the final namespaces and which documented paths / exported objects fail to resolve in the
model.  Binding: for each (spec tree, first import) a fresh interpreter does the same imports and dumps its namespaces;
TLC (Bulk_PyImport) evaluates PathsResolve and OneObject on the OBSERVED namespaces - that is the verdict; the model's own
verdict must coincide (otherwise the model misdescribes CPython: machinery error, not a violation)."""
from __future__ import annotations

import json
import shutil
import subprocess
from concurrent.futures import ThreadPoolExecutor

from ..bulk import BlockWriter, run_bulk
from ..common import PY, SPEC, VERIF, MachineryError, Verdict, dump_json, require, run_tlc, scratch, seed, snapshot_repo
from ..corpus import field, array, library
from ..gen import generate, write_tree
from ..proto import tree_files
from ..pyimport import doc_paths, exports, extract, import_data_module, observe_all
from .. import common
from .c18 import make_trees

PROP = "C20"
ENV = {"PATH": "/usr/local/bin:/usr/bin:/bin", "PYTHONDONTWRITEBYTECODE": "1", "PYTHONHASHSEED": "0"}


def adversarial_tree():
    """Type names chosen against the package's own module names (never equal to a static public class name)."""
    lib = {k: dict(v) for k, v in library().items()}
    S = lambda name, d, *code: {"name": name, "kind": "struct", "dir": d, "family": "", "action": "", "code": list(code), "rt": True}
    # (a type whose module file would sit next to a directory of the same name - Client/Server in net, Server in pub - is a collision by
    #  construction of two documented names, like a type named after a static public class; stated exclusion)
    progs = [S("Data", "net", field("x", "char")), S("Net", "pub", field("d", "Data")), S("Client", "map", field("x", "Coords")),
             S("Server", "map", field("x", "char")), S("Map", "pub/server", field("x", "char")), S("Pub", "net", field("x", "char")),
             S("Encrypt", "", field("x", "char")), S("Protocol", "net/server", field("x", "Server")),
             S("eoVersion", "pub", field("v", "char")), S("npcInfo", "net", field("v", "eoVersion")),      # type names need not start with a capital
             {"name": "TalkRequestClientPacket", "kind": "packet", "dir": "net/client", "family": "Talk", "action": "Request", "code": [field("d", "Data"), field("p", "Pub")], "rt": True}]
    return ("adversarial-names", lib, progs)


def observe(src, first):
    p = subprocess.run([PY, "-B", str(VERIF / "harness" / "drivers" / "ns_driver.py"), str(src), first], capture_output=True, text=True, timeout=300, env=ENV)
    if p.returncode != 0:
        raise MachineryError("ns_driver crashed: " + p.stderr[-600:])
    return json.loads(p.stdout.strip().splitlines()[-1])


def run(tier, corrupt=False):
    v = Verdict(PROP, tier)
    cov = {"states": 0, "transitions": 0, "trees": []}
    nobs = 0
    samples = []
    with scratch("c20-") as tmp:
        mt_ = make_trees([])
        trees = mt_[:2] + [adversarial_tree()] + [t for t in mt_ if t[0] in ("map-refers-to-net-client", "net-refers-to-net-client")]
        for tname, types, progs in trees:
            src = snapshot_repo(tmp / f"w_{tname}")
            xml = tmp / f"xml_{tname}"
            write_tree(xml, tree_files(progs, types))
            e = generate(src, xml)
            if e is not None:
                v.violation(f"tree {tname}: generator fails", f"valid tree rejected: {e!r}", {"tree": tname})
                continue
            mods = extract(src)
            observe_all(src, mods, PY)
            firsts = sorted(m for m, d in mods.items() if not d["generated"]) + sorted(m for m, d in mods.items() if d["generated"])[:6]
            if tier == "quick":
                firsts = [m for i, m in enumerate(firsts) if i % 2 == seed() % 2 or m in ("eolib", "eolib.packet", "eolib.protocol.net.packet")]
            md = tmp / f"model_{tname}"
            md.mkdir()
            for fn in ("PyImport.tla", "MC_PyImport.tla", "MC_PyImport.cfg", "Bulk_PyImport.tla", "Bulk_PyImport.cfg", "BulkDriver.tla"):
                shutil.copy(SPEC / fn, md / fn)
            (md / "ImportData.tla").write_text(import_data_module(mods, firsts))
            r = run_tlc("MC_PyImport", "MC_PyImport.cfg", workers=8, timeout=1800, coverage=True, cwd=md)
            require(r.ok, f"model-level failure in MC_PyImport on {tname}:\n" + r.tail())
            for a in ("Request", "Finish", "Def", "NeedLoad", "Star", "From"):
                require(r.coverage.get(a, 0) > 0, f"vacuity: {a} never fired in PyImport")
            model = {p["first"]: p for p in r.printed if isinstance(p, dict) and "first" in p}
            require(len(model) == len(firsts), f"model finished {len(model)} of {len(firsts)} first-import choices")
            cov["states"] += r.distinct
            cov["transitions"] += r.generated
            with ThreadPoolExecutor(max_workers=8) as ex:
                obs = list(ex.map(lambda f: observe(src, f), firsts))
            nobs += len(obs)
            # judge the observations with the spec's predicates
            bd = tmp / f"blk_{tname}"
            bd.mkdir()
            bw = BlockWriter(bd)
            rows = []
            for o in obs:
                nsd = o["ns"]
                if corrupt and len(rows) == 1:
                    nsd = json.loads(json.dumps(nsd))
                    nsd["eolib"]["data"] = ["mod", "eolib.encrypt"]
                rows.append({"first": o["first"], "ns": nsd})
            bw.add({"kind": "ns", "rows": rows})
            bw.close()
            res = run_tlc("Bulk_PyImport", "Bulk_PyImport.cfg", env={"BULK_DIR": str(bd)}, workers=2, timeout=1800, cwd=md)
            require(res.ok, "Bulk_PyImport failed:\n" + res.tail())
            rep = [p for p in res.printed if isinstance(p, dict) and "blk" in p]
            require(len(rep) == 1 and rep[0]["n"] == len(rows), "Bulk_PyImport did not report all rows")
            cov["states"] += res.distinct
            cov["transitions"] += res.generated
            observed_bad = {}
            for rowi, kind, what in rep[0]["bad"]:
                if not obs[rowi - 1]["error"]:          # where the import itself failed that is the finding; nothing is bound to judge
                    observed_bad.setdefault(firsts[rowi - 1], set()).add((kind, what))
            failing = [o for o in obs if o["error"]]
            for err in sorted({o["error"] for o in failing}):
                fs_ = [o["first"] for o in failing if o["error"] == err]
                v.violation(f"tree {tname}: import fails ({err.split(':')[0]})", f"{err} (first imports: {fs_[:4]}{'...' if len(fs_) > 4 else ''})", {"tree": tname, "firsts": fs_, "error": err})
            # model validity on exactly what the verdict is about
            exps = exports(mods)
            for f in firsts:
                m = model[f]
                if "error" in m:
                    continue
                mb = {("path", x) for x in m["unresolved"]} | {("object", exps[i - 1]["name"]) for i in m["split"]}
                ob = observed_bad.get(f, set())
                if mb != ob and not corrupt and not next((o for o in obs if o["first"] == f))["error"]:
                    raise MachineryError(f"PyImport model and CPython disagree for tree {tname}, first import {f}: model-only {sorted(mb - ob)[:5]}, observed-only {sorted(ob - mb)[:5]}")
            allbad = {}
            for f, s in observed_bad.items():
                for kind, what in s:
                    allbad.setdefault((kind, what), []).append(f)
            for (kind, what), fs in sorted(allbad.items()):
                if kind == "path":
                    o = next(o for o in obs if o["first"] == fs[0])
                    # what does the dotted path actually lead to?
                    cur, where = ["mod", "eolib"], "eolib"
                    for leaf in what.split(".")[1:]:
                        cur = o["ns"].get(cur[1], {}).get(leaf, ["missing"]) if cur[0] == "mod" else ["missing"]
                    key = f"path={what}"
                    v.violation(key, f"attribute access along {what} yields {cur} instead of the module {what} (tree {tname}; first imports: {fs[:3]}{'...' if len(fs) > 3 else ''})",
                                {"tree": tname, "path": what, "leads_to": cur, "firsts": fs})
                else:
                    key = f"object={what} tree={tname}"
                    v.violation(key, f"{what} is not one and the same object at the top level, in its home subpackage and in its defining module (first imports: {fs[:3]})",
                                {"tree": tname, "name": what, "firsts": fs})
            cov["trees"].append({"name": tname, "modules": len(mods), "first_imports": len(firsts), "documented_paths": len(doc_paths(mods)), "exported_objects": len(exps),
                                 "model_states": r.distinct, "paths_not_resolving": sorted(w for (k, w) in allbad if k == "path")})
            if not samples:
                samples = [{"tree": tname, "first": firsts[0], "eolib_namespace_excerpt": dict(list(obs[0]["ns"].get("eolib", {}).items())[:6])}]
    cov.update({"traces_validated_against_impl": nobs, "samples": samples or [{"note": "no tree generated"}], "exhaustive": False,
                "explanation": "3 spec trees (upstream-like, sibling references, names chosen against module names) x every/every-other first-import choice"})
    return v.finish(cov, ["the import model covers from-imports, star-imports, __all__, def/assign at module level (what eolib uses)", "CPython 3.12"])


def selftest(tier):
    common.SELFTEST = True
    rc = run("quick", corrupt=True)
    print("SELFTEST OK: a corrupted namespace is reported" if rc == 1 else "SELFTEST FAILED")
    return 0 if rc == 1 else 2


def replay(path):
    print(json.dumps(json.loads(open(path).read())["case"], indent=1)[:4000])
    return 0
