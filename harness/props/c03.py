"""C03 - generated deserializers obey the spec on truncated or hostile bytes.

Model: spec/ProtoDeser.tla (small-step deserializer over EoReader).  TLC (MC_Proto): mode "hostile" - every valid
serialization of the bounded objects, then every single-fault corruption (every truncation, substitutions and
insertions biased to 00/FE/FF, appended junk), both entry modes; mode "bytes" - every byte string up to length 3
over {0,1,2,3,254,255}; invariants InBounds, OnlyDocumentedError, mode restoration; liveness Terminates under weak
fairness on a slice.  Binding: R - every (program, bytes) pair TLC emits is fed to the generated deserialize; the
object, the exception class and the reader position must be the model's."""
from __future__ import annotations

import json

from ..common import MachineryError, Verdict, require, scratch
from ..corpus import library
from ..proto import cfg_text, default_corpus, full_corpus, prepare_world, run_drivers_parallel, tlc_given, tlc_proto
from ..randobj import Gen, mutate_bytes
from .. import common
from ._proto_common import short, strip_kinds
from .c02 import collect

PROP = "C03"
INV = ("PInBounds", "POnlyDocumentedError", "DeLeavesModeAsFound")


def de_records(tier, tmp, progs, types, need_unwind=True):
    recs, stats = [], {"states": 0, "transitions": 0, "runs": []}
    light = tier == "quick"
    # quick: every hand-written program, one in four of the generated ones
    sel = progs if tier == "thorough" else [p for p in progs if not p.get("gen")] + [p for p in progs if p.get("gen")][(int(__import__("os").environ.get("VERIF_SEED", "0")) % 4)::4]
    r1, s1 = collect(tier, tmp, sel, types, "hostile", rich=False, invariants=INV, properties=("PDModeRestored",), tag="ho", light=light)
    r2, s2 = collect(tier, tmp, progs, types, "bytes", rich=False, maxbytes=3 if light else 4, invariants=INV, properties=("PDModeRestored",), tag="by")
    for s, name in ((s1, "hostile"), (s2, "bytes")):
        stats["states"] += s["states"]
        stats["transitions"] += s["transitions"]
        stats["runs"].append({"mode": name, "distinct_states": s["states"], "action_counts": s["action_counts"]})
        require(s["action_counts"]["DeStep"] > 0 and s["action_counts"]["DeReturn"] > 0, "vacuity: deserializer actions never fired")
    require(not need_unwind or s1["action_counts"]["DeUnwind"] + s2["action_counts"]["DeUnwind"] > 0, "vacuity: no behaviour raised (negative length never reached)")
    recs = [r for r in r1 + r2 if r["kind"] == "de"]
    return recs, stats


def liveness(tmp, progs, types):
    """Terminates under weak fairness, without a state constraint, on a slice (finite by construction)."""
    sel = [p for p in progs if p["name"] in ("HArrRest", "HArrRestShort", "HDelimTrail", "HDelimSep", "HArrTail", "HLenOff", "HDelimStructs")]
    res = tlc_proto(tmp, sel, types, cfg_text("bytes", rich=False, maxbytes=3, properties=("PTerminates",), fair=True), shards=1, workers=8, tag="live")
    for r in res:
        require(r.ok, "liveness: the deserializer model does not terminate on some input:\n" + r.tail(50))
    return {"programs": [p["name"] for p in sel], "distinct_states": sum(r.distinct for r in res), "property": "PTerminates under WF(Next)"}


def run(tier, corrupt=False):
    v = Verdict(PROP, tier)
    types = library()
    with scratch("c03-") as tmp:
        progs = full_corpus(tmp, tier, n_generated=(None if tier == "quick" else 400))      # (1,500 generated programs took an hour and 25 GB)
        from .c02 import merge_stats, program_groups
        all_progs = progs
        live = liveness(tmp, progs, types)
        groups = program_groups(all_progs, tier)          # thorough: judged group by group (memory)
        tot = {"stats": None, "n": 0, "nv": 0, "nbound": 0, "samples": None}
        for gi, progs in enumerate(groups):
            recs, stats = de_records(tier, tmp, progs, types, need_unwind=(gi == 0))
            require(len(recs) > 5000, f"too few behaviours from TLC ({len(recs)})")
            with scratch("c03w-") as wt:
                src, accepted, rejected = prepare_world(wt, progs, types)
                acc = {p["name"] for p in accepted}
                kept = [r for r in recs if r["prog"] in acc and r["status"] != "bound"]
                nbound = sum(1 for r in recs if r["status"] == "bound")
                cases = [{"kind": "de", "prog": r["prog"], "data": r["data"], "ch0": r["ch0"], "dfuel": -1, "windows": k_ % 3 == 0} for k_, r in enumerate(kept)]
                n = 0
                BATCH = 60000
                for b0 in range(0, len(cases), BATCH):
                    imp, results = run_drivers_parallel(src, wt, accepted, types, cases[b0:b0 + BATCH])
                    if imp:
                        v.violation("generated package not importable", imp.strip().splitlines()[-1], {"trace": imp})
                        break
                    for r, o in zip(kept[b0:b0 + BATCH], results):
                        n += 1
                        if o.get("timeout"):
                            # "the generated deserializer terminates" (the model does: PTerminates); 20 s for a few bytes is not a matter of load
                            v.violation(f"{r['prog']} data={r['data']} chunked0={r['ch0']} does not terminate", "deserialize did not return within 20 s (or an earlier input of this program did not); the reading rules terminate",
                                        {"prog": r["prog"], "data": r["data"], "ch0": r["ch0"]})
                            continue
                        if "harness_error" in o:
                            raise MachineryError(o["harness_error"])
                        if corrupt and n == 77:
                            o = dict(o, pos=(o["pos"] or 0) + 1)
                        key = f"{r['prog']} data={r['data']} chunked0={r['ch0']}"
                        case = {"prog": r["prog"], "data": r["data"], "ch0": r["ch0"], "model": {"exc": r["exc"], "obj": r["obj"], "pos": r["pos"]},
                                "observed": {"exc": o["exc"], "obj": o["obj"], "pos": o["pos"], "msg": o.get("exc_msg")}}
                        if o.get("window_differs"):
                            v.violation(key, "\"nothing outside the supplied bytes is read\": " + o["window_differs"], case)
                        if o["exc"] != r["exc"]:
                            v.violation(key, f"deserialize raised {o['exc'] or 'nothing'} ({o.get('exc_msg', '')}); the reading rules give "
                                             f"{r['exc'] or 'an object'}", case)
                            continue
                        if r["exc"] == "":
                            if strip_kinds(o["obj"]) != r["obj"]:
                                v.violation(key, f"object differs from the one the reading rules prescribe: got {short(strip_kinds(o['obj']))}, expected {short(r['obj'])}", case)
                            elif o["pos"] != r["pos"]:
                                v.violation(key, f"reader position {o['pos']} after deserialize, the reading rules consume {r['pos']}", case)
                # ---- pattern V: uniformly random bytes and mutations of the serializations of random larger objects, judged by TLC (givenbytes)
                import random
                from ..common import seed
                rng = random.Random(seed() * 7919 + 3)
                ctypes = {**types, **{p["name"]: {"kind": "struct", "dir": p["dir"], "code": p["code"]} for p in progs if p["kind"] == "struct"}}
                gen = Gen(ctypes, rng)
                idx = {p["name"]: i + 1 for i, p in enumerate(progs)}
                per = 3 if tier == "quick" else 25
                scases = [{"kind": "ser", "prog": p["name"], "san0": False, "fuel": -1, "obj": gen.obj(p["code"], p["name"]), "salt": k} for p in accepted for k in range(per)]
                imp2, sres = run_drivers_parallel(src, wt, accepted, types, scases)
                vcases = []
                for c, o in zip(scases, sres):
                    base = o["bytes"] if not o.get("ctor_exc") and not o.get("exc") else []
                    for _ in range(3):
                        vcases.append({"p": idx[c["prog"]], "data": mutate_bytes(rng, base), "ch0": rng.random() < 0.2})
                model = tlc_given(tmp, progs, types, vcases, "givenbytes")
                dcases = [{"kind": "de", "prog": progs[c["p"] - 1]["name"], "data": c["data"], "ch0": c["ch0"], "dfuel": -1} for c in vcases]
                imp3, dres = run_drivers_parallel(src, wt, accepted, types, dcases)
                nv = 0
                for c, m, o in zip(vcases, model, dres):
                    if m["status"] == "bound":
                        nbound += 1
                        continue
                    nv += 1
                    if o.get("timeout"):
                        v.violation(f"{progs[c['p'] - 1]['name']} (random) data={c['data']} does not terminate", "deserialize did not return within 20 s; the reading rules terminate", {"prog": progs[c["p"] - 1]["name"], "data": c["data"]})
                        continue
                    if "harness_error" in o:
                        raise MachineryError(o["harness_error"])
                    prog = progs[c["p"] - 1]["name"]
                    key = f"{prog} (random) data={c['data']} chunked0={c['ch0']}"
                    case = {"prog": prog, "data": c["data"], "ch0": c["ch0"], "model": {"exc": m["exc"], "obj": m["obj"], "pos": m["pos"]}, "observed": {"exc": o["exc"], "obj": o["obj"], "pos": o["pos"], "msg": o.get("exc_msg")}}
                    if o["exc"] != m["exc"]:
                        v.violation(key, f"deserialize raised {o['exc'] or 'nothing'} ({o.get('exc_msg', '')}); the reading rules give {m['exc'] or 'an object'}", case)
                    elif m["exc"] == "" and strip_kinds(o["obj"]) != m["obj"]:
                        v.violation(key, f"object differs from the one the reading rules prescribe: got {short(strip_kinds(o['obj']))}, expected {short(m['obj'])}", case)
                    elif m["exc"] == "" and o["pos"] != m["pos"]:
                        v.violation(key, f"reader position {o['pos']} after deserialize, the reading rules consume {m['pos']}", case)
                n += nv
            tot["n"] += n
            tot["nv"] += nv
            tot["nbound"] += nbound
            if tot["samples"] is None:
                tot["samples"] = [{k: kept[0][k] for k in ("prog", "data", "ch0", "exc", "obj")}, {k: kept[-1][k] for k in ("prog", "data", "ch0", "exc", "obj")}]
            if tot["stats"] is None:
                tot["stats"] = stats
            else:
                tot["stats"] = {"states": tot["stats"]["states"] + stats["states"], "transitions": tot["stats"]["transitions"] + stats["transitions"],
                                "runs": [dict(a, distinct_states=a["distinct_states"] + b["distinct_states"], action_counts=merge_stats(a["action_counts"], b["action_counts"]))
                                         for a, b in zip(tot["stats"]["runs"], stats["runs"])]}
            del recs, kept, results, model, dres, sres
        progs, stats, n, nv, nbound = all_progs, tot["stats"], tot["n"], tot["nv"], tot["nbound"]
        stats["liveness"] = live
    cov = {"states": stats["states"], "transitions": stats["transitions"], "model_runs": stats["runs"], "liveness": stats["liveness"],
           "random_byte_strings_validated": nv,
           "traces_validated_against_impl": n, "resource_bound_skipped": nbound, "programs": len(progs),
           "samples": tot["samples"], "program_groups": len(groups),
           "exhaustive": False,
           "explanation": "hostile: all single-fault corruptions of all valid serializations over the bounded object domains; bytes: all short byte "
                          "strings over {0,1,2,3,254,255}; each replayed on the generated deserialize"}
    return v.finish(cov, ["the corpus bounds 'all programs'", "array loops beyond 64 iterations (three/int length fields on hostile bytes) are outside the bound",
                          "TLC semantics"])


def selftest(tier):
    common.SELFTEST = True
    rc = run("quick", corrupt=True)
    print("SELFTEST OK: corrupted observation rejected" if rc == 1 else "SELFTEST FAILED")
    return 0 if rc == 1 else 2


def replay(path):
    print(json.dumps(json.loads(open(path).read())["case"], indent=1)[:6000])
    return 0
