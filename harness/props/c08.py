"""C08 - EO string encoding is length-preserving, self-inverse and break-safe.

Model: spec/EoStrings.tla; TLC: MC_EoStrings (all strings <= 5/6 over an 8-letter alphabet + the full
byte x position-parity x length-parity table).  Binding: pattern B via Bulk_EoStrings.
"""
from __future__ import annotations

import json
import random

from ..bulk import load_block, parallel_blocks, run_bulk
from ..common import Verdict, imp, load_eolib_stubbed, require, run_tlc, scratch, seed, snapshot_repo
from .. import common

PROP = "C08"
ALPHA8 = [0, 33, 34, 79, 80, 126, 127, 255]
_E = _D = None


def _do(fn, data):
    a = bytearray(data)
    try:
        fn(a)
    except Exception:
        return [-1]          # no byte string: an exception from a total function disagrees with every model value
    return a


def _row(s):
    e = _do(_E, s)
    d = _do(_D, s)
    de = _do(_D, e) if list(e) != [-1] else [-1]
    ed = _do(_E, d) if list(d) != [-1] else [-1]
    return [list(e), list(d), list(de), list(ed)]


def _gen(spec):
    if spec["kind"] == "exh":
        ln, base, n = spec["len"], spec["base"], spec["n"]
        rows = []
        for idx in range(base, base + n):
            s = [ALPHA8[(idx >> (3 * j)) & 7] for j in range(ln)]
            rows.append(_row(s))
        return {"kind": "exh", "len": ln, "base": base, "rows": rows}
    return {"kind": "rows", "rows": [[s] + _row(s) for s in spec["strings"]]}


def _specs(tier, rng):
    specs = []
    maxlen = 5 if tier == "quick" else 7
    for ln in range(0, maxlen + 1):
        total = 8 ** ln
        for base in range(0, total, 32768):
            specs.append({"kind": "exh", "len": ln, "base": base, "n": min(32768, total - base)})
    strs = []
    for b in range(256):               # byte x position parity x length parity
        for k in range(3):
            for m in range(3):
                strs.append([65] * k + [b] + [65] * m)
    for b in range(256):               # every byte at every position of longer strings of both parities
        for ln in (7, 8):
            for pos in range(ln):
                s = [rng.choice((0x22, 0x4F, 0x50, 0x7D, 0x41)) for _ in range(ln)]
                s[pos] = b
                strs.append(s)
    nrand = 50_000 if tier == "quick" else 1_000_000
    for _ in range(nrand):
        ln = rng.randrange(0, 65)
        strs.append([rng.randrange(256) for _ in range(ln)])
    for ln in (255, 256, 257, 258, 300, 511, 512, 1025):     # beyond one byte / the interned small integers / typical buffer sizes
        strs.append([rng.randrange(256) for _ in range(ln)])
        strs.append([rng.randrange(0x20, 0x81) for _ in range(ln)])
    for _ in range(nrand // 5):          # printable-heavy strings
        ln = rng.randrange(0, 65)
        strs.append([rng.randrange(0x20, 0x81) for _ in range(ln)])
    for i in range(0, len(strs), 16384):
        specs.append({"kind": "rows", "strings": strs[i:i + 16384]})
    return specs


def _describe(blk, i):
    r = blk["rows"][i - 1]
    if blk["kind"] == "exh":
        idx = blk["base"] + i - 1
        s = [ALPHA8[(idx >> (3 * j)) & 7] for j in range(blk["len"])]
        obs = r
    else:
        s, obs = r[0], r[1:]
    return f"string={s}", {"s": s, "observed": dict(zip(["enc", "dec", "dec_enc", "enc_dec"], obs))}


def run(tier, corrupt=False):
    global _E, _D
    v = Verdict(PROP, tier)
    cfg = "MC_EoStrings.cfg" if tier == "quick" else "MC_EoStrings_thorough.cfg"
    r1 = run_tlc("MC_EoStrings", cfg, workers=8)
    require(r1.ok, "model-level failure in MC_EoStrings (spec problem):\n" + r1.tail())
    cov = {"states": r1.distinct, "transitions": r1.generated,
           "model_runs": [{"module": "MC_EoStrings", "cfg": cfg, "distinct_states": r1.distinct, "wall_s": round(r1.wall, 1),
                           "invariants": ["InvLength", "InvDecEnc", "InvEncDec", "InvShape", "InvBreakSafe"]}]}
    with scratch("c08-") as tmp:
        src = snapshot_repo(tmp)
        load_eolib_stubbed(src)
        m = imp("eolib.data.string_encoding_utils")
        _E, _D = m.encode_string, m.decode_string
        rng = random.Random(seed() * 7919 + 8)
        specs = _specs(tier, rng)
        total = bad_total = 0
        samples = []
        for stage in [specs[i:i + 128] for i in range(0, len(specs), 128)]:
            with scratch("c08blk-") as d:
                nb, rows = parallel_blocks(d, _gen, stage)
                if corrupt:
                    b = load_block(d, nb)
                    b["rows"][5][1][0] ^= 1
                    (d / f"block_{nb}.json").write_text(json.dumps(b))
                    corrupt = False
                res, checked, bad = run_bulk("Bulk_EoStrings", d, nb)
                require(checked == rows, "row count mismatch")
                total += checked
                cov["states"] += res.distinct
                cov["transitions"] += res.generated
                if not samples:
                    samples = [_describe(load_block(d, nb), 7)[1], _describe(load_block(d, 4), 100)[1]]
                for b, idxs in bad:
                    blk = load_block(d, b)
                    for i in idxs[:5]:
                        key, case = _describe(blk, i)
                        v.violation(key, "encode_string/decode_string disagree with EoStrings spec", case)
                    bad_total += len(idxs)
    cov.update({"traces_validated_against_impl": total, "rows_disagreeing": bad_total, "samples": samples,
                "exhaustive": False,
                "strata": {"exhaustive_alphabet": ALPHA8, "exhaustive_max_len": 5 if tier == "quick" else 7,
                           "table": "all 256 bytes x k,m in 0..2 padding + every position of length-7/8 strings",
                           "random": "uniform bytes and printable-heavy strings, length <= 64"}})
    return v.finish(cov, ["TLC semantics", "strings longer than the exhaustive bound are sampled"])


def selftest(tier):
    common.SELFTEST = True
    rc = run("quick", corrupt=True)
    print("SELFTEST OK: corrupted row rejected" if rc == 1 else "SELFTEST FAILED")
    return 0 if rc == 1 else 2


def replay(path):
    case = json.loads(open(path).read())["case"]
    with scratch("c08-") as tmp:
        load_eolib_stubbed(snapshot_repo(tmp))
        m = imp("eolib.data.string_encoding_utils")
        e = bytearray(case["s"]); m.encode_string(e)
        d = bytearray(case["s"]); m.decode_string(d)
        print("s", case["s"], "enc", list(e), "dec", list(d), "recorded", case["observed"])
    return 0
