"""C02 - generated serializers emit exactly the wire format the XML prescribes.

Model: spec/ProtoSer.tla (small-step serializer over EoWriter; Appendix A semantics) driven by MC_Proto in mode "ser":
TLC chooses every object of the bounded domains, in both entry modes, for every program of the corpus, and emits
(object, bytes).  Binding: R - each emitted object is built with the generated constructor and serialized by the
generated code (serialize and, for packets, write); bytes, exception class, final mode and family()/action() must be
the model's.  Boolean-default spelling: every program is generated twice (defaults implicit / spelled out) and the
model, which never sees the spelling, predicts the same bytes."""
from __future__ import annotations

import copy
import json

from ..common import MachineryError, Verdict, require, scratch, seed
from ..proto import cfg_text, default_corpus, full_corpus, prepare_world, run_drivers_parallel, tlc_given, tlc_proto
from ..randobj import Gen
from ..corpus import library
from .. import common

PROP = "C02"


def explicit_variant(p):
    """Same program with every boolean default spelled out (optional="false", padded="false", ...)."""
    q = copy.deepcopy(p)
    def walk(code):
        for i in code:
            i["explicit"] = True
            if i["tag"] == "chunked":
                walk(i["body"])
            elif i["tag"] == "switch":
                for c in i["cases"]:
                    walk(c["body"])
    walk(q["code"])
    return q


def collect(tier, tmp, progs, types, mode="ser", rich=True, nfuel=0, ndfuel=0, maxbytes=0, invariants=(), properties=(), tag="mc", light=False, withsize=True, emit_withsize=True, hdepth=2):
    """One TLC run per shard: invariants/properties checked, per-action coverage collected, finished behaviours emitted.
    (single-line PrintT output is atomic also with several workers).  Returns (records, stats)."""
    runs = tlc_proto(tmp, progs, types, cfg_text(mode, nfuel=nfuel, ndfuel=ndfuel, rich=rich, maxbytes=maxbytes, light=light, withsize=emit_withsize, hdepth=hdepth,
                                                 invariants=invariants, properties=properties, emit=True),
                     shards=4, workers=4, tag=tag, coverage=True)
    recs = []
    for r in runs:
        require(r.ok, f"model-level failure in MC_Proto/{mode} (spec problem, not a code verdict):\n" + r.tail(60))
        recs += [p for p in r.printed if isinstance(p, dict) and "kind" in p]
        r.printed, r.out = [], ""           # the parsed records are all that is kept of TLC's output
    stats = {"states": sum(r.distinct for r in runs), "transitions": sum(r.generated for r in runs),
             "action_counts": {a: sum(r.coverage.get(a, 0) for r in runs) for a in ("SerStep", "SerReturn", "SerUnwind", "ToDeser", "DeStep", "DeReturn", "DeUnwind")}}
    return recs, stats


def program_groups(progs, tier):
    """Quick: one group.  Thorough: the hand-written programs (they refer to one another) with the first 200 generated ones, then 300 at a time."""
    if tier == "quick":
        return [progs]
    hand = [p for p in progs if not p.get("gen")]
    gen_ = [p for p in progs if p.get("gen")]
    groups = [hand + gen_[:200]]
    for i in range(200, len(gen_), 300):
        groups.append([hand[0]] + gen_[i:i + 300])           # (the first hand-written program fixes the override order of every tree)
    return groups


def merge_stats(a, b):
    out = dict(a)
    for k, val in b.items():
        if isinstance(val, (int, float)) and not isinstance(val, bool):
            out[k] = out.get(k, 0) + val
        elif isinstance(val, dict):
            out[k] = merge_stats(out.get(k, {}), val)
    return out


def run(tier, corrupt=False):
    v = Verdict(PROP, tier)
    types = library()
    with scratch("c02-") as tmp:
        progs = full_corpus(tmp, tier)
        all_progs = progs
        # the thorough corpus is judged group by group (hand-written programs + 200 generated ones, then 300 generated ones at a time):
        # the records and observations of 1,500 programs at once do not fit in memory next to anything else
        groups = program_groups(all_progs, tier)
        tot = {"stats": None, "nchecked": 0, "nv": 0, "nrecs": 0, "by_prog": {}, "samples": None}
        for gi, progs in enumerate(groups):
            recs, stats = collect(tier, tmp, progs, types, "ser", invariants=("SerLeavesModeAsFound", "PNoSilentFailure"), properties=("PModeRestored",))
            require(stats["action_counts"]["SerStep"] > 0 and stats["action_counts"]["SerReturn"] > 0, "vacuity: serializer actions never fired")
            recs = [r for r in recs if r["kind"] == "ser"]
            require(len(recs) > 1000, f"too few behaviours from TLC ({len(recs)})")
            by_prog = {}
            for r in recs:
                by_prog.setdefault(r["prog"], 0)
                by_prog[r["prog"]] += 1
            missing = [p["name"] for p in progs if p["name"] not in by_prog]
            require(not missing, f"no behaviour emitted for programs {missing}")
            # two worlds: defaults implicit / explicit
            nchecked = 0
            for variant in ("implicit", "explicit"):
                vprogs = progs if variant == "implicit" else [explicit_variant(p) for p in progs]
                with scratch("c02w-") as wt:
                    src, accepted, rejected = prepare_world(wt, vprogs, types)
                    for p, e in rejected:
                        v.violation(f"generator rejects valid program {p['name']} ({variant} defaults)",
                                    f"the generator raised {type(e).__name__}: {e} for a specification the grammar allows", {"prog": p, "variant": variant})
                    acc = {p["name"] for p in accepted}
                    cases, kept = [], []
                    for i, r in enumerate(recs):
                        if r["prog"] in acc:
                            cases.append({"kind": "ser", "prog": r["prog"], "san0": r["san0"], "fuel": -1, "obj": r["obj"], "salt": i,
                                          "via_write": (i % 2 == 1)})
                            kept.append(r)
                            if variant == "implicit" and i % 3 == 0 and r["exc"] == "":
                                # the same bytes are prescribed when the writer has seen a failed serialize() of this object before
                                cases.append({"kind": "ser", "prog": r["prog"], "san0": r["san0"], "fuel": -1, "obj": r["obj"], "salt": i, "prefail": (i // 3) % 4})
                                kept.append(r)
                    BATCH = 60000
                    for b0 in range(0, len(cases), BATCH):
                        imp, results = run_drivers_parallel(src, wt, accepted, types, cases[b0:b0 + BATCH])
                        if imp:
                            v.violation(f"generated package not importable ({variant} defaults)", imp.strip().splitlines()[-1], {"trace": imp})
                            break
                        for r, c, o in zip(kept[b0:b0 + BATCH], cases[b0:b0 + BATCH], results):
                            nchecked += 1
                            if "harness_error" in o:
                                raise MachineryError(o["harness_error"])
                            if corrupt and nchecked == 50:
                                o = dict(o, bytes=o["bytes"] + [1])
                            key = f"{r['prog']} ({variant}{', writer reused after a failed call' if 'prefail' in c else ''}) obj={json.dumps(r['obj'], sort_keys=True)[:300]} san0={r['san0']}"
                            case = {"prog": r["prog"], "variant": variant, "san0": r["san0"], "obj": r["obj"], "model_bytes": r["bytes"], "observed": {k: o.get(k) for k in ("ctor_exc", "exc", "bytes", "san_end", "family", "action")}}
                            if o["ctor_exc"]:
                                v.violation(f"{r['prog']} ({variant}) constructor " + o["ctor_exc"][:60] + " obj=" + json.dumps(r["obj"], sort_keys=True)[:200],
                                            f"a constructible-by-declaration object cannot be constructed: {o['ctor_exc']}", case)
                                continue
                            if o["exc"] != r["exc"]:
                                v.violation(key, f"serialize raised {o['exc'] or 'nothing'} ({o.get('exc_msg', '')}); the XML semantics give {r['exc'] or 'a complete serialization'}", case)
                                continue
                            if o["bytes"] != r["bytes"]:
                                v.violation(key, f"bytes differ from the wire format the XML prescribes: got {o['bytes']}, expected {r['bytes']}", case)
                            p = next(q for q in progs if q["name"] == r["prog"])
                            if p["kind"] == "packet" and (o.get("family") != p["family"] or o.get("action") != p["action"]):
                                v.violation(f"{r['prog']} family/action", f"reports {o.get('family')}/{o.get('action')}, declared {p['family']}/{p['action']}", case)
            # ---- pattern V: random larger objects (arrays <= 6, strings <= 12 arbitrary Unicode, random integers), judged by TLC in given-object mode
            import random
            rng = random.Random(seed() * 7919 + 2)
            per = 8 if tier == "quick" else 40
            nv = 0
            with scratch("c02v-") as wt:
                src, accepted, rejected = prepare_world(wt, progs, types)
                ctypes = {**types, **{p["name"]: {"kind": "struct", "dir": p["dir"], "code": p["code"]} for p in progs if p["kind"] == "struct"}}
                gen = Gen(ctypes, rng)
                idx = {p["name"]: i + 1 for i, p in enumerate(progs)}
                vcases = []
                for p in accepted:
                    for _ in range(per):
                        vcases.append({"p": idx[p["name"]], "obj": gen.obj(p["code"], p["name"]), "san0": rng.random() < 0.3})
                    if '"tag": "length"' in json.dumps(p["code"]):
                        gen.boundary = True        # as many items as each byte/char length field can carry
                        vcases.append({"p": idx[p["name"]], "obj": gen.obj(p["code"], p["name"]), "san0": False})
                        gen.boundary = False
                model = tlc_given(tmp, progs, types, vcases, "given")
                dcases = [{"kind": "ser", "prog": progs[c["p"] - 1]["name"], "san0": c["san0"], "fuel": -1, "obj": c["obj"], "salt": i} for i, c in enumerate(vcases)]
                imp, results = run_drivers_parallel(src, wt, accepted, types, dcases)
                if imp:
                    v.violation("generated package not importable", imp.strip().splitlines()[-1], {"trace": imp})
                    results = []
                for c, m, o in zip(vcases, model, results):
                    nv += 1
                    if "harness_error" in o:
                        raise MachineryError(o["harness_error"])
                    prog = progs[c["p"] - 1]["name"]
                    key = f"{prog} (random) obj={json.dumps(c['obj'], sort_keys=True)[:300]} san0={c['san0']}"
                    case = {"prog": prog, "san0": c["san0"], "obj": c["obj"], "model": {"exc": m["exc"], "bytes": m["bytes"]}, "observed": {k: o.get(k) for k in ("ctor_exc", "exc", "bytes", "san_end")}}
                    if o["ctor_exc"]:
                        v.violation(f"{prog} (random) constructor {o['ctor_exc'][:60]}", f"object cannot be constructed: {o['ctor_exc']}", case)
                    elif (o["exc"] != "") != (m["exc"] != ""):
                        v.violation(key, f"serialize {'raised ' + o['exc'] if o['exc'] else 'completed'}; the XML semantics {'refuse the object (' + m['exc'] + ')' if m['exc'] else 'give a complete serialization'}", case)
                    elif not m["exc"] and o["bytes"] != m["bytes"]:
                        v.violation(key, f"bytes differ from the wire format the XML prescribes: got {o['bytes']}, expected {m['bytes']}", case)
            tot["nchecked"] += nchecked
            tot["nv"] += nv
            tot["nrecs"] += len(recs)
            tot["by_prog"].update(by_prog)
            if tot["samples"] is None:
                tot["samples"] = [{"prog": recs[0]["prog"], "obj": recs[0]["obj"], "bytes": recs[0]["bytes"]}, {"prog": recs[-1]["prog"], "obj": recs[-1]["obj"], "bytes": recs[-1]["bytes"]}]
            tot["stats"] = stats if tot["stats"] is None else merge_stats(tot["stats"], stats)
            del recs, results, model
        progs, stats, nchecked, nv, by_prog = all_progs, tot["stats"], tot["nchecked"], tot["nv"], tot["by_prog"]
    cov = dict(stats)
    cov["random_objects_validated"] = nv
    cov.update({"traces_validated_against_impl": nchecked + nv, "programs": len(progs), "behaviours_from_tlc": tot["nrecs"], "program_groups": len(groups),
                "behaviours_per_program": by_prog,
                "samples": tot["samples"],
                "exhaustive": False,
                "explanation": "all objects of the bounded value domains (MCDoms RICH) x both entry modes for every program of the corpus; "
                               "each replayed against the generated code in two spellings of the boolean defaults"})
    return v.finish(cov, ["the corpus bounds 'all programs'", "TLC semantics", "Appendix A of DESIGN.md is the reading of the eo-protocol documents"])


def selftest(tier):
    common.SELFTEST = True
    rc = run("quick", corrupt=True)
    print("SELFTEST OK: corrupted observation rejected" if rc == 1 else "SELFTEST FAILED")
    return 0 if rc == 1 else 2


def replay(path):
    print(json.dumps(json.loads(open(path).read())["case"], indent=1)[:6000])
    return 0
