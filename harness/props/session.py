"""SESSION (growth, not one of the listed properties) - a client and a server composed only of library primitives.

Model: spec/EoSession.tla - handshake (challenge -> server_verification_hash, INIT sequence start through two chars),
sequenced traffic on FIFO channels in EoFrame frames (length prefix, action, family, char-or-short sequence number, body; encrypted
per direction), unsequenced server traffic, the ACCOUNT_REPLY start (postponed while a ping is outstanding), ping updates racing with packets in flight (server keeps the new start pending until
the pong), bodies encrypted with swap_multiples / interleave / flip_msb.  TLC: MC_EoSession exhaustively (bounded channels,
11 packets = past a counter wrap, 2 pings) with Lockstep, GenuineServerAccepted, ComponentsTransmittable, HashFitsEoInt,
StartsAgreeWhenQuiet; plus -simulate walks of a larger instance that are emitted.  Binding: R - every emitted behaviour is
stepped through the REAL PacketSequencer, Init/PingSequenceStart.from_*_values, server_verification_hash, EoWriter/EoReader
and the encryption functions; every value the model put on the wire must be what the real primitives compute."""
from __future__ import annotations

import json

from ..common import MachineryError, Verdict, imp, load_eolib_stubbed, require, run_tlc, scratch, seed, snapshot_repo
from .. import common

PROP = "SESSION"
MULTS = (3, 7)


KIND = {"data": (4, 21), "pong": (6, 3), "acct_req": (1, 5), "acct_reply": (3, 5), "sdata": (10, 18)}


def real_frame(lib, action, family, seq, body, m):
    """EoFrame!Frame written with the real primitives."""
    ss, ps, sv, enc, W, R, num = lib
    w = W()
    w.add_byte(action)
    w.add_byte(family)
    if seq != -1:
        (w.add_short if seq >= 253 else w.add_char)(seq)
    w.add_bytes(bytes(body))
    p = bytearray(w.to_bytearray())
    if not (len(p) >= 2 and p[0] == 255 and p[1] == 255) and m != 0:
        enc.swap_multiples(p, m)
        enc.interleave(p)
        enc.flip_msb(p)
    return list(num.encode_number(len(p))[:2]) + list(p)


def real_unframe(lib, wire, expect, m):
    """EoFrame!Unframe read with the real primitives: (len, action, family, seq, body)."""
    ss, ps, sv, enc, W, R, num = lib
    ln = num.decode_number(bytes(wire[:2]))
    p = bytearray(wire[2:2 + ln])
    if not (len(p) >= 2 and p[0] == 255 and p[1] == 255) and m != 0:
        enc.flip_msb(p)
        enc.deinterleave(p)
        enc.swap_multiples(p, m)
    r = R(bytes(p))
    action, family = r.get_byte(), r.get_byte()
    seq = -1 if expect == -1 else (r.get_short() if expect >= 253 else r.get_char())
    return ln, action, family, seq, list(r.get_bytes(r.remaining))


def _replay(lib, beh):
    """Returns None or a description of the first divergence."""
    ss, ps, sv, enc, W, R, num = lib
    challenge = beh["challenge"]
    client = server = None
    pending = None
    prev_c2s, prev_s2c = [], []

    def sent_ok(i, a, msg, n, kind, body, m):
        if "seq" in msg and n != msg["seq"]:
            return f"step {i} {a}: next_sequence() = {n}, model {msg['seq']}"
        f = real_frame(lib, KIND[kind][0], KIND[kind][1], n, body, m)
        if f != msg["wire"]:
            return f"step {i} {a}: real frame {f}, model {msg['wire']}"
        return None

    def recv_ok(i, a, msg, expect, kind, body, m, ok):
        ln, action, family, seq, got = real_unframe(lib, msg["wire"], expect, m)
        good = (ln == len(msg["wire"]) - 2 and (action, family) == KIND[kind] and seq == expect and (body is None or got == body))
        if good != ok or not ok:
            return f"step {i} {a}: expecting {expect}, the frame decodes to len={ln} action={action} family={family} seq={seq} body={got} (model ok={ok})"
        return None

    for i, st in enumerate(beh["log"]):
        a = st["a"]
        c2s, s2c = st["c2s"], st["s2c"]
        bad = None
        if a == "ServerHello":
            msg = s2c[-1]
            h = sv.server_verification_hash(challenge)
            if h != msg["hash"]:
                return f"step {i} ServerHello: server_verification_hash({challenge}) = {h}, model {msg['hash']}"
            w = W()
            w.add_char(msg["seq1"]); w.add_char(msg["seq2"])
            r = R(bytes(w.to_bytearray()))
            s1, s2 = r.get_char(), r.get_char()
            start = ss.InitSequenceStart.from_init_values(s1, s2)
            if start.value != st["sstart"]:
                return f"step {i} ServerHello: from_init_values({s1},{s2}).value = {start.value}, model {st['sstart']}"
            server = ps.PacketSequencer(start)
        elif a == "ClientInitReply":
            msg = prev_s2c[0]
            if sv.server_verification_hash(challenge) != msg["hash"]:
                return f"step {i}: a genuine client rejects the server's hash"
            start = ss.InitSequenceStart.from_init_values(msg["seq1"], msg["seq2"])
            if start.value != st["cstart"]:
                return f"step {i} ClientInitReply: client start {start.value}, model {st['cstart']}"
            client = ps.PacketSequencer(start)
        elif a == "ClientSend":
            bad = sent_ok(i, a, c2s[-1], client.next_sequence(), "data", c2s[-1]["plain"], MULTS[0])
        elif a == "ServerRecv":
            bad = recv_ok(i, a, prev_c2s[0], server.next_sequence(), "data", prev_c2s[0]["plain"], MULTS[0], st["ok"])
        elif a == "ServerSend":
            bad = sent_ok(i, a, s2c[-1], -1, "sdata", s2c[-1]["plain"], MULTS[1])
        elif a == "ClientRecv":
            bad = recv_ok(i, a, prev_s2c[0], -1, "sdata", prev_s2c[0]["plain"], MULTS[1], st["ok"])
        elif a == "ServerPing":
            msg = s2c[-1]
            w = W()
            w.add_short(msg["seq1"]); w.add_char(msg["seq2"])
            r = R(bytes(w.to_bytearray()))
            s1, s2 = r.get_short(), r.get_char()
            pending = ss.PingSequenceStart.from_ping_values(s1, s2)
            if pending.value != st["spending"]:
                return f"step {i} ServerPing: from_ping_values({s1},{s2}).value = {pending.value}, model {st['spending']}"
        elif a == "ClientPing":
            msg = prev_s2c[0]
            client.set_sequence_start(ss.PingSequenceStart.from_ping_values(msg["seq1"], msg["seq2"]))
            bad = sent_ok(i, a, c2s[-1], client.next_sequence(), "pong", [], MULTS[0])
        elif a == "ServerPong":
            server.set_sequence_start(pending)
            bad = recv_ok(i, a, prev_c2s[0], server.next_sequence(), "pong", [], MULTS[0], st["ok"])
        elif a == "ClientAcctRequest":
            bad = sent_ok(i, a, c2s[-1], client.next_sequence(), "acct_req", [], MULTS[0])
        elif a == "ServerAcctRecv":
            bad = recv_ok(i, a, prev_c2s[0], server.next_sequence(), "acct_req", [], MULTS[0], st["ok"])
        elif a == "ServerAcctReply":
            msg = s2c[-1]
            start = ss.AccountReplySequenceStart.from_value(msg["value"])
            server.set_sequence_start(start)
            if start.value != st["sstart"]:
                return f"step {i} ServerAcctReply: AccountReplySequenceStart.from_value({msg['value']}).value = {start.value}, model {st['sstart']}"
            bad = sent_ok(i, a, msg, -1, "acct_reply", list(num.encode_number(msg["value"])[:1]), MULTS[1])
        elif a == "ClientAcctReply":
            msg = prev_s2c[0]
            ln, action, family, seq, body = real_unframe(lib, msg["wire"], -1, MULTS[1])
            val = num.decode_number(bytes(body))
            client.set_sequence_start(ss.AccountReplySequenceStart.from_value(val))
            if (action, family) != KIND["acct_reply"] or val != msg["value"] or val != st["cstart"] or not st["ok"]:
                return f"step {i} ClientAcctReply: the reply decodes to action={action} family={family} value={val}, model {msg['value']} / client start {st['cstart']}"
        if bad:
            return bad
        prev_c2s, prev_s2c = c2s, s2c
    return None


def run(tier, corrupt=False):
    v = Verdict(PROP, tier)
    r = run_tlc("MC_EoSession", "MC_EoSession.cfg", workers=8, coverage=True, timeout=1800)
    require(r.ok, "model-level failure in MC_EoSession:\n" + r.tail())
    # the spec's own sanity: without the POSTPONE guard TLC must find the ping / account-reply race
    rr = run_tlc("MC_EoSession", "MC_EoSession_race.cfg", workers=8, timeout=900)
    require(not rr.ok and "StartsAgreeWhenQuiet" in rr.out, "the race configuration did not produce the expected counterexample")
    nsim = 300 if tier == "quick" else 5000
    rs = run_tlc("MC_EoSession", "MC_EoSession_sim.cfg", workers=1, simulate=f"num={nsim}", depth=90, extra=["-seed", str(seed() + 3)], timeout=1800)
    behs = {}
    for p in rs.printed:
        if isinstance(p, dict) and "log" in p:
            behs[json.dumps(p, sort_keys=True)] = p
    behs = list(behs.values())
    require(len(behs) >= 20, f"too few session behaviours emitted ({len(behs)})")
    with scratch("sess-") as tmp:
        load_eolib_stubbed(snapshot_repo(tmp))
        lib = (imp("eolib.packet.sequence_start"), imp("eolib.packet.packet_sequencer"), imp("eolib.encrypt.server_verification_utils"),
               imp("eolib.encrypt.encryption_utils"), imp("eolib.data.eo_writer").EoWriter, imp("eolib.data.eo_reader").EoReader,
               imp("eolib.data.number_encoding_utils"))
        steps = 0
        for bi, b in enumerate(behs):
            if corrupt and bi == 2:
                b = json.loads(json.dumps(b))
                for st in b["log"]:
                    if st["a"] == "ClientSend":
                        st["c2s"][-1]["wire"][3] ^= 1
                        break
            steps += len(b["log"])
            bad = _replay(lib, b)
            if bad:
                v.violation(f"session challenge={b['challenge']} actions={[s['a'] for s in b['log']][:25]}", bad, {"behaviour": b})
    cov = {"states": r.distinct + rs.distinct, "transitions": r.generated + rs.generated, "traces_validated_against_impl": len(behs), "steps_replayed": steps,
           "model_runs": [{"module": "MC_EoSession", "distinct_states": r.distinct, "invariants": ["GenuineServerAccepted", "Lockstep", "HashFitsEoInt", "ComponentsTransmittable", "StartsAgreeWhenQuiet"]},
                          {"module": "MC_EoSession", "cfg": "MC_EoSession_race.cfg", "expected": "StartsAgreeWhenQuiet violated (the race the POSTPONE guard removes)"}],
           "samples": [{"challenge": behs[0]["challenge"], "actions": [s["a"] for s in behs[0]["log"]]}], "exhaustive": False,
           "explanation": "growth: protocol session composed of library primitives; exhaustive small instance + simulated larger behaviours replayed on the real primitives"}
    return v.finish(cov, ["FIFO channels", "the session protocol is the author's reading of how the EO client/server use these primitives"])


def selftest(tier):
    common.SELFTEST = True
    rc = run("quick", corrupt=True)
    print("SELFTEST OK" if rc == 1 else "SELFTEST FAILED")
    return 0 if rc == 1 else 2


def replay(path):
    print(json.dumps(json.loads(open(path).read())["case"], indent=1)[:3000])
    return 0
