"""SESSION (growth, not one of the listed properties) - a client and a server composed only of library primitives.

Model: spec/EoSession.tla - handshake (challenge -> server_verification_hash, INIT sequence start through two chars),
sequenced traffic on FIFO channels, ping updates racing with packets in flight (server keeps the new start pending until
the pong), bodies encrypted with swap_multiples / interleave / flip_msb.  TLC: MC_EoSession exhaustively (bounded channels,
11 packets = past a counter wrap, 2 pings) with Lockstep, GenuineServerAccepted, ComponentsTransmittable, HashFitsEoInt,
StartsAgreeWhenQuiet; plus -simulate walks of a larger instance that are emitted.  Binding: R - every emitted behaviour is
stepped through the REAL PacketSequencer, Init/PingSequenceStart.from_*_values, server_verification_hash, EoWriter/EoReader
and the encryption functions; every value the model put on the wire must be what the real primitives compute."""
from __future__ import annotations

import json

from ..common import MachineryError, Verdict, imp, load_eolib_stubbed, require, run_tlc, scratch, seed, snapshot_repo
from .. import common

PROP = "SESSION"
MULTS = (3, 7)


def _replay(lib, beh):
    """Returns None or a description of the first divergence."""
    ss, ps, sv, enc, W, R = lib
    challenge = beh["challenge"]
    client = server = None
    pending = None
    prev_c2s, prev_s2c = [], []
    for i, st in enumerate(beh["log"]):
        a = st["a"]
        c2s, s2c = st["c2s"], st["s2c"]
        new_c = c2s[len(prev_c2s) - (1 if a in ("ServerHello", "ServerRecv", "ServerPong") else 0):] if len(c2s) >= len(prev_c2s) - 1 else []
        if a == "ClientHello":
            pass
        elif a == "ServerHello":
            msg = s2c[-1]
            h = sv.server_verification_hash(challenge)
            if h != msg["hash"]:
                return f"step {i} ServerHello: server_verification_hash({challenge}) = {h}, model {msg['hash']}"
            w = W()
            w.add_char(msg["seq1"]); w.add_char(msg["seq2"])
            r = R(bytes(w.to_bytearray()))
            s1, s2 = r.get_char(), r.get_char()
            start = ss.InitSequenceStart.from_init_values(s1, s2)
            if start.value != st["sstart"]:
                return f"step {i} ServerHello: from_init_values({s1},{s2}).value = {start.value}, model {st['sstart']}"
            server = ps.PacketSequencer(start)
        elif a == "ClientInitReply":
            msg = prev_s2c[0]
            if sv.server_verification_hash(challenge) != msg["hash"]:
                return f"step {i}: a genuine client rejects the server's hash"
            start = ss.InitSequenceStart.from_init_values(msg["seq1"], msg["seq2"])
            if start.value != st["cstart"]:
                return f"step {i} ClientInitReply: client start {start.value}, model {st['cstart']}"
            client = ps.PacketSequencer(start)
        elif a == "ClientSend":
            msg = c2s[-1]
            n = client.next_sequence()
            if n != msg["seq"]:
                return f"step {i} ClientSend: client next_sequence() = {n}, model {msg['seq']}"
            buf = bytearray(msg["plain"])
            enc.swap_multiples(buf, MULTS[0]); enc.interleave(buf); enc.flip_msb(buf)
            if list(buf) != msg["wire"]:
                return f"step {i} ClientSend: encrypted body {list(buf)}, model {msg['wire']}"
        elif a == "ServerRecv":
            msg = prev_c2s[0]
            n = server.next_sequence()
            if (n == msg["seq"]) != st["ok"] or not st["ok"]:
                return f"step {i} ServerRecv: server expects {n}, packet carries {msg['seq']} (model ok={st['ok']})"
            buf = bytearray(msg["wire"])
            enc.flip_msb(buf); enc.deinterleave(buf); enc.swap_multiples(buf, MULTS[0])
            if list(buf) != msg["plain"]:
                return f"step {i} ServerRecv: decrypted {list(buf)}, plaintext {msg['plain']}"
        elif a == "ServerPing":
            msg = s2c[-1]
            w = W()
            w.add_short(msg["seq1"]); w.add_char(msg["seq2"])
            r = R(bytes(w.to_bytearray()))
            s1, s2 = r.get_short(), r.get_char()
            pending = ss.PingSequenceStart.from_ping_values(s1, s2)
            if pending.value != st["spending"]:
                return f"step {i} ServerPing: from_ping_values({s1},{s2}).value = {pending.value}, model {st['spending']}"
        elif a == "ClientPing":
            msg = prev_s2c[0]
            client.set_sequence_start(ss.PingSequenceStart.from_ping_values(msg["seq1"], msg["seq2"]))
            n = client.next_sequence()
            if n != c2s[-1]["seq"]:
                return f"step {i} ClientPing: pong numbered {n}, model {c2s[-1]['seq']}"
        elif a == "ServerPong":
            msg = prev_c2s[0]
            server.set_sequence_start(pending)
            n = server.next_sequence()
            if n != msg["seq"] or not st["ok"]:
                return f"step {i} ServerPong: server expects {n}, pong carries {msg['seq']}"
        prev_c2s, prev_s2c = c2s, s2c
    return None


def run(tier, corrupt=False):
    v = Verdict(PROP, tier)
    r = run_tlc("MC_EoSession", "MC_EoSession.cfg", workers=8, coverage=True, timeout=1800)
    require(r.ok, "model-level failure in MC_EoSession:\n" + r.tail())
    nsim = 300 if tier == "quick" else 5000
    rs = run_tlc("MC_EoSession", "MC_EoSession_sim.cfg", workers=1, simulate=f"num={nsim}", depth=90, extra=["-seed", str(seed() + 3)], timeout=1800)
    behs = {}
    for p in rs.printed:
        if isinstance(p, dict) and "log" in p:
            behs[json.dumps(p, sort_keys=True)] = p
    behs = list(behs.values())
    require(len(behs) >= 20, f"too few session behaviours emitted ({len(behs)})")
    with scratch("sess-") as tmp:
        load_eolib_stubbed(snapshot_repo(tmp))
        lib = (imp("eolib.packet.sequence_start"), imp("eolib.packet.packet_sequencer"), imp("eolib.encrypt.server_verification_utils"),
               imp("eolib.encrypt.encryption_utils"), imp("eolib.data.eo_writer").EoWriter, imp("eolib.data.eo_reader").EoReader)
        steps = 0
        for bi, b in enumerate(behs):
            if corrupt and bi == 2:
                b = json.loads(json.dumps(b))
                for st in b["log"]:
                    if st["a"] == "ClientSend":
                        st["c2s"][-1]["seq"] += 1
                        break
            steps += len(b["log"])
            bad = _replay(lib, b)
            if bad:
                v.violation(f"session challenge={b['challenge']} actions={[s['a'] for s in b['log']][:25]}", bad, {"behaviour": b})
    cov = {"states": r.distinct + rs.distinct, "transitions": r.generated + rs.generated, "traces_validated_against_impl": len(behs), "steps_replayed": steps,
           "model_runs": [{"module": "MC_EoSession", "distinct_states": r.distinct, "invariants": ["GenuineServerAccepted", "Lockstep", "HashFitsEoInt", "ComponentsTransmittable", "StartsAgreeWhenQuiet"]}],
           "samples": [{"challenge": behs[0]["challenge"], "actions": [s["a"] for s in behs[0]["log"]]}], "exhaustive": False,
           "explanation": "growth: protocol session composed of library primitives; exhaustive small instance + simulated larger behaviours replayed on the real primitives"}
    return v.finish(cov, ["FIFO channels", "the session protocol is the author's reading of how the EO client/server use these primitives"])


def selftest(tier):
    common.SELFTEST = True
    rc = run("quick", corrupt=True)
    print("SELFTEST OK" if rc == 1 else "SELFTEST FAILED")
    return 0 if rc == 1 else 2


def replay(path):
    print(json.dumps(json.loads(open(path).read())["case"], indent=1)[:3000])
    return 0
