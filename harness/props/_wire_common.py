"""Pipeline shared by C09 and C04: TLC (MC_EoWire) enumerates call sequences -> replay on the real classes ->
TLC (Bulk_EoWire) judges the observations with each property's own predicates."""
from __future__ import annotations

import json
import random

from ..bulk import BlockWriter, load_block, run_bulk
from ..common import MachineryError, imp, load_eolib_stubbed, require, run_tlc, scratch, seed, snapshot_repo
from ..wire import rand_calls, run_wire_trace

CODE_NAMES = {1: "Atomic", 2: "ExactLength", 3: "SanitisedNoFF", 4: "ExactImage", 8: "RefusedExactlyWhenInvalid",
              5: "ReadBackValue", 6: "ConsumedExactly", 7: "ReadRaised", 9: "HarnessMismatch", 10: "OutputSnapshotStable", 11: "AcceptableWriteRaised"}
C09_CODES = {1, 2, 3, 4, 8}
C04_CODES = {5, 6, 7, 10, 11}


def _fmt_call(c):
    from ..common import unlimbs
    op = c["op"]
    if "n" in c:
        return f"{op}({unlimbs(c['n'])})"
    if op == "add_bytes":
        return f"add_bytes({c['bytes']})"
    if op == "set_san":
        return f"san={c['b']}"
    if "len" in c:
        return f"{op}({c['s']},{c['len']},{'padded' if c['padded'] else 'exact'})"
    return f"{op}({c['s']})"


def pipeline(tier, corrupt=None):
    """Returns (coverage dict, list of findings (code, key, what, case))."""
    cfg = "MC_EoWire.cfg" if tier == "quick" else "MC_EoWire_thorough.cfg"
    r = run_tlc("MC_EoWire", cfg, workers=1, coverage=True, timeout=3000)
    require(r.ok, "model-level failure in MC_EoWire (the model itself breaks a C09/C04 predicate):\n" + r.tail())
    for a in ("Write", "StartRead", "Read"):
        require(r.coverage.get(a, 0) > 0, f"vacuity: {a} never fired in MC_EoWire")
    seqs = [p["calls"] for p in r.printed if isinstance(p, dict) and "calls" in p]
    require(len(seqs) > 1000, f"TLC emitted too few call sequences ({len(seqs)})")
    cov = {"states": r.distinct, "transitions": r.generated,
           "model_runs": [{"module": "MC_EoWire", "cfg": cfg, "distinct_states": r.distinct,
                           "invariants": ["LastOK (C09 predicates on every model step)", "ReadBackOK", "ConsumedExactly"],
                           "action_counts": {a: r.coverage.get(a) for a in ("Write", "StartRead", "Read")}}]}
    findings = []
    with scratch("wire-") as tmp:
        load_eolib_stubbed(snapshot_repo(tmp))
        W = imp("eolib.data.eo_writer").EoWriter
        R = imp("eolib.data.eo_reader").EoReader
        rng = random.Random(seed() * 7919 + 9)
        nrand = 5000 if tier == "quick" else 60000
        rand = [rand_calls(rng) for _ in range(nrand)]
        with scratch("wireblk-") as d:
            bw = BlockWriter(d)
            rows = []
            src_of = []
            for i, calls in enumerate(seqs + rand):
                row = run_wire_trace(W, R, calls, salt=i)
                rows.append(row)
                if len(rows) == 4096:
                    bw.add({"kind": "wire", "rows": rows})
                    rows = []
            bw.add({"kind": "wire", "rows": rows})
            bw.close()
            if corrupt:
                b = load_block(d, 1)
                corrupt(b)
                (d / "block_1.json").write_text(json.dumps(b))
            res, checked, bad = run_bulk("Bulk_EoWire", d, bw.n)
            cov["states"] += res.distinct
            cov["transitions"] += res.generated
            samples = []
            b1 = load_block(d, 1)
            samples.append({"from": "TLC", "calls": [_fmt_call(h["call"]) for h in b1["rows"][len(b1["rows"]) // 2]["w"]]})
            bl = load_block(d, bw.n)
            samples.append({"from": "random", "calls": [_fmt_call(h["call"]) for h in bl["rows"][-1]["w"]][:8]})
            for blkno, entries in bad:
                blk = load_block(d, blkno)
                for rowi, ev, code in entries:
                    row = blk["rows"][rowi - 1]
                    if code == 9:
                        raise MachineryError(f"harness performed a non-matching read: {row}")
                    calls = [_fmt_call(h["call"]) for h in row["w"]]
                    if ev < 1000:
                        upto = calls[:ev]
                        h = row["w"][ev - 1]
                        what = (f"{CODE_NAMES[code]} violated by {calls[ev - 1]} (mode san={h['san']}): observed outcome {h['exc'] or 'accepted'}, "
                                f"bytes after = {h['after'][-12:]}")
                    elif ev < 2000:
                        j = ev - 1000
                        x = row["r"][j - 1]
                        upto = calls
                        what = f"{CODE_NAMES[code]}: read-back #{j} {x['call']} returned {x['ret']} {x['exc']}"
                    elif code == 10:
                        upto = calls
                        what = "the bytearray returned by to_bytearray() after the first write changed when more was written"
                    else:
                        upto = calls
                        what = f"{CODE_NAMES[code]}: {row['rem']} byte(s) left after reading everything back"
                    key = f"{CODE_NAMES[code]}: " + " ; ".join(upto[-4:])
                    findings.append((code, key, what, {"calls": [h["call"] for h in row["w"]], "event": ev, "code": code}))
    cov.update({"traces_validated_against_impl": checked, "tlc_sequences": len(seqs), "random_sequences": nrand, "samples": samples,
                "exhaustive": False,
                "explanation": f"every call sequence of length {2 if tier == 'quick' else 3} over the 98-call alphabet of MC_EoWire, plus random "
                               "sequences up to 30 calls with arbitrary Unicode strings and integers up to 2^40"})
    return cov, findings


def replay_case(case):
    with scratch("wire-") as tmp:
        load_eolib_stubbed(snapshot_repo(tmp))
        W = imp("eolib.data.eo_writer").EoWriter
        R = imp("eolib.data.eo_reader").EoReader
        row = run_wire_trace(W, R, case["calls"])
        for h in row["w"]:
            print(_fmt_call(h["call"]), "->", h["exc"] or "ok", h["after"])
        for x in row["r"]:
            print(x)
        print("remaining", row["rem"])
    return 0
