"""C05 - EoReader follows the chunked-reading model and never leaves its data.

Model: spec/EoReader.tla.  TLC: MC_EoReader - every data string up to length 4 over {00,01,FE,FF} x every call
sequence of depth 2 (3) over 17 parameterised calls on every live reader (slices of slices included), plus
simulated walks of depth 10 over a 32-call alphabet on data up to length 6; InBounds, Independent, DataImmutable,
SliceFresh.  Binding: every TLC behaviour is replayed on the real EoReader and random traces over arbitrary bytes
are recorded; TLC (Bulk_EoReader) re-runs each through the spec's operators and compares every returned value,
exception class and (position, remaining, mode) of every live reader after every call."""
from __future__ import annotations

import json
import random

from ..bulk import BlockWriter, load_block, run_bulk
from ..common import MachineryError, Verdict, imp, load_eolib_stubbed, require, run_tlc, scratch, seed, snapshot_repo
from ..wire import do_read
from .. import common

PROP = "C05"
NONE = -9999
CODE = {1: "returned value", 2: "exception class", 3: "position/remaining/mode"}


def _proj(readers):
    out = []
    for r in readers:
        out.append({"pos": r.position, "remaining": r.remaining, "chunked": bool(r.chunked_reading_mode)})
    return out


def replay_trace(EoReader, data, calls):
    readers = [EoReader(bytes(data))]
    obs = []
    for c in calls:
        if c["r"] - 1 >= len(readers):
            # the slice that should have produced this reader raised (already recorded as such): nothing to call
            obs.append({"ret": 0, "exc": "MissingReader", "proj": _proj(readers)})
            continue
        r = readers[c["r"] - 1]
        if c["op"] == "slice":
            try:
                nr = r.slice(None if c["index"] == NONE else c["index"], None if c["length"] == NONE else c["length"])
                readers.append(nr)
                ret, exc = len(readers), ""
            except Exception as e:
                from ..wire import exc_class
                ret, exc = 0, exc_class(e)
        else:
            ret, exc = do_read(r, c)
        obs.append({"ret": ret, "exc": exc, "proj": _proj(readers)})
    return {"data": list(data), "calls": calls, "obs": obs}


def _rand_trace(rng):
    n = rng.randrange(0, 65)
    if rng.random() < 0.03:
        n = rng.choice([255, 256, 257, 258, 300, 520])      # beyond one byte / the interned small integers
    style = rng.random()
    if style < 0.4:
        data = [rng.choice([0, 1, 254, 255, 255, rng.randrange(256)]) for _ in range(n)]
    elif style < 0.7:
        data = [rng.randrange(256) for _ in range(n)]
    else:
        data = [rng.choice([255, rng.randrange(1, 254)]) for _ in range(n)]
    nreaders = 1
    calls = []
    for _ in range(rng.randrange(1, 41)):
        r = rng.randrange(1, nreaders + 1)
        x = rng.random()
        if x < 0.12:
            c = {"op": "get_byte", "r": r}
        elif x < 0.22:
            c = {"op": "get_bytes", "r": r, "n": rng.choice([0, 1, 2, 3, 5, 9, 70])}
        elif x < 0.42:
            c = {"op": rng.choice(["get_char", "get_short", "get_three", "get_int"]), "r": r}
        elif x < 0.5:
            c = {"op": rng.choice(["get_string", "get_encoded_string"]), "r": r}
        elif x < 0.64:
            c = {"op": rng.choice(["get_fixed_string", "get_fixed_encoded_string"]), "r": r,
                 "n": rng.choice([0, 1, 2, 3, 4, 7, 12, 70, -1] + ([257, 300] if n > 200 else [])), "padded": rng.random() < 0.5}
        elif x < 0.76:
            c = {"op": "set_chunked", "r": r, "b": rng.random() < 0.6}
        elif x < 0.9:
            c = {"op": "next_chunk", "r": r}
        else:
            if nreaders >= 4:
                continue
            c = {"op": "slice", "r": r, "index": rng.choice([NONE, NONE, 0, 1, 2, 5, 30, 64, 80, -1]),
                 "length": rng.choice([NONE, NONE, 0, 1, 3, 10, 64, 100, -2])}
            if c["index"] >= 0 or c["index"] == NONE:
                if c["length"] >= 0 or c["length"] == NONE:
                    nreaders += 1
        calls.append(c)
    return data, calls


def _fmt(c):
    a = [str(v) for k, v in c.items() if k not in ("op", "r")]
    return f"r{c['r']}.{c['op']}({','.join('None' if x == str(NONE) else x for x in a)})"


def run(tier, corrupt=False):
    v = Verdict(PROP, tier)
    cfg = "MC_EoReader.cfg" if tier == "quick" else "MC_EoReader_thorough.cfg"
    r = run_tlc("MC_EoReader", cfg, workers=1, coverage=True, timeout=6000, heap="12g")
    require(r.ok, "model-level failure in MC_EoReader (spec problem):\n" + r.tail())
    for a in ("Grow", "Freeze", "Step"):
        require(r.coverage.get(a, 0) > 0, f"vacuity: {a} never fired")
    rs = run_tlc("MC_EoReader", "MC_EoReader_sim.cfg", workers=1, simulate=f"num={200 if tier == 'quick' else 2000}", depth=20,
                 extra=["-seed", str(seed() + 5)], timeout=3000)
    beh = {}
    for p in r.printed + rs.printed:
        if isinstance(p, dict) and "calls" in p:
            beh[json.dumps(p, sort_keys=True)] = p
    beh = list(beh.values())
    require(len(beh) > 10000, f"too few behaviours from TLC ({len(beh)})")
    cov = {"states": r.distinct + rs.distinct, "transitions": r.generated + rs.generated,
           "model_runs": [{"module": "MC_EoReader", "cfg": cfg, "distinct_states": r.distinct,
                           "properties": ["SafeInBounds", "StepIndependent", "StepDataImmutable", "SliceFresh"],
                           "action_counts": {a: r.coverage.get(a) for a in ("Grow", "Freeze", "Step")}},
                          {"module": "MC_EoReader", "mode": "-simulate depth 20, full alphabet, data <= 6", "states": rs.generated}]}
    with scratch("c05-") as tmp:
        load_eolib_stubbed(snapshot_repo(tmp))
        R = imp("eolib.data.eo_reader").EoReader
        rng = random.Random(seed() * 7919 + 5)
        nrand = 20000 if tier == "quick" else 200000
        with scratch("c05blk-") as d:
            bw = BlockWriter(d)
            rows = []
            def flush():
                nonlocal rows
                bw.add({"kind": "reader", "rows": rows})
                rows = []
            for b in beh:
                rows.append(replay_trace(R, b["data"], b["calls"]))
                if len(rows) == 8192:
                    flush()
            for _ in range(nrand):
                data, calls = _rand_trace(rng)
                rows.append(replay_trace(R, data, calls))
                if len(rows) == 8192:
                    flush()
            flush()
            bw.close()
            if corrupt:
                b = load_block(d, 1)
                b["rows"][20]["obs"][-1]["proj"][0]["remaining"] += 1
                (d / "block_1.json").write_text(json.dumps(b))
            res, checked, bad = run_bulk("Bulk_EoReader", d, bw.n)
            cov["states"] += res.distinct
            cov["transitions"] += res.generated
            b1 = load_block(d, 1)
            mid = b1["rows"][len(b1["rows"]) // 2]
            samples = [{"data": mid["data"], "calls": [_fmt(c) for c in mid["calls"]]}]
            bl = load_block(d, bw.n)["rows"][-1]
            samples.append({"data": bl["data"][:16], "calls": [_fmt(c) for c in bl["calls"]][:10]})
            nbad = 0
            for blkno, entries in bad:
                blk = load_block(d, blkno)
                for rowi, ev, code in entries:
                    nbad += 1
                    row = blk["rows"][rowi - 1]
                    calls = [_fmt(c) for c in row["calls"][:ev]]
                    key = f"data={row['data']} calls=" + " ".join(calls[-5:])
                    o = row["obs"][ev - 1]
                    v.violation(key, f"{CODE[code]} after {calls[-1]} differs from the chunked-reading model: observed ret={o['ret']} exc={o['exc']!r} readers={o['proj']}",
                                {"data": row["data"], "calls": row["calls"][:ev], "observed": o, "code": code})
    cov.update({"traces_validated_against_impl": checked, "tlc_behaviours": len(beh), "random_traces": nrand, "rows_disagreeing": nbad,
                "samples": samples, "exhaustive": False,
                "explanation": f"exhaustive: data <= 4 over 4 bytes x all call sequences of depth {2 if tier == 'quick' else 3} (17 calls per live reader); "
                               "beyond: simulated walks and random traces over arbitrary bytes up to 64, up to 40 calls, up to 4 readers"})
    return v.finish(cov, ["TLC semantics", "negative get_bytes lengths are outside the property and not driven",
                          "call sequences beyond the exhaustive depth are sampled"])


def selftest(tier):
    common.SELFTEST = True
    rc = run("quick", corrupt=True)
    print("SELFTEST OK: corrupted observation rejected" if rc == 1 else "SELFTEST FAILED")
    return 0 if rc == 1 else 2


def replay(path):
    case = json.loads(open(path).read())["case"]
    with scratch("c05-") as tmp:
        load_eolib_stubbed(snapshot_repo(tmp))
        R = imp("eolib.data.eo_reader").EoReader
        row = replay_trace(R, case["data"], case["calls"])
        for c, o in zip(row["calls"], row["obs"]):
            print(_fmt(c), "->", o)
        print("recorded last observation:", case["observed"])
    return 0
