"""C18 - generation is deterministic and always yields an importable package.

Model: spec/GenPipeline.tla - files discovered in any order, imports collected in any order into a set and rendered through
a canonical listing; TLC checks OrderIndependent and Complete over every schedule of each spec tree and emits the
discovery orders.  Binding: R over configurations - the real generator runs in subprocesses with os.walk forced into each
TLC-chosen order, under several PYTHONHASHSEEDs, twice in a row and into a pre-populated output directory; the
(path -> sha256) maps must all be equal and the path set must be the model's; a fresh interpreter then imports the package
and every declared class must be exported from its subpackage, from eolib.protocol and from eolib.  'Succeeds on every valid
tree': every well-formed program SpecGen builds (classified by ProtoGrammar) must be accepted."""
from __future__ import annotations

import json
import subprocess

from ..common import PY, SPEC, VERIF, MachineryError, Verdict, dump_json, require, run_tlc, scratch, seed, snapshot_repo
from ..corpus import field, array, library, render_program, chunked, brk
from ..gen import write_tree
from ..proto import default_corpus, tree_files
from ..specgen import generator_verdicts, programs
from .. import common

PROP = "C18"
ENV = {"PATH": "/usr/local/bin:/usr/bin:/bin", "PYTHONDONTWRITEBYTECODE": "1"}


def snake(name):
    out = ""
    for i, c in enumerate(name):
        if i > 0 and c.isupper() and ((i + 1 < len(name) and not name[i + 1].isupper()) or name[i - 1].islower()):
            out += "_"
        out += c.lower()
    return out


def refs_of(code, types):
    out = set()
    for i in code:
        if i["tag"] in ("field", "array") and i["type"] in types:
            out.add(i["type"])
        if i["tag"] == "chunked":
            out |= refs_of(i["body"], types)
        if i["tag"] == "switch":
            for c in i["cases"]:
                out |= refs_of(c["body"], types)
    return out


def make_trees(specgen_valid):
    """Returns [(name, types, progs)] - spec trees with cross-file references."""
    lib = library()
    trees = []
    # A: upstream-like: shared types in net, other files refer to their own types and to net
    tA = {k: dict(v) for k, v in lib.items()}
    tA["Kind"]["dir"] = "pub"
    tA["Tail"]["dir"] = "map"
    tA["Item"]["dir"] = "net"
    pA = []
    dirs = ["net", "map", "pub", "pub/server", "net", ""]
    for n, p in enumerate(default_corpus()):
        q = dict(p)
        if q["kind"] == "struct":
            q["dir"] = dirs[n % len(dirs)]
        pA.append(q)
    trees.append(("upstream-like", tA, pA))
    # B: references between sibling directories (pub/server -> net/server, net/server -> pub, net/client -> pub/server)
    tB = {k: dict(v) for k, v in lib.items()}
    tB["Item"]["dir"] = "net/server"
    tB["Tail"]["dir"] = "pub/server"
    tB["Kind"]["dir"] = "pub"
    pB = [
        {"name": "ShopRecord", "kind": "struct", "dir": "pub/server", "family": "", "action": "", "code": [field("id", "short"), array("items", "Item")], "rt": True},
        {"name": "DropInfo", "kind": "struct", "dir": "net/server", "family": "", "action": "", "code": [field("k", "Kind"), field("t", "Tail")], "rt": True},
        {"name": "Emf", "kind": "struct", "dir": "map", "family": "", "action": "", "code": [field("c", "Coords"), field("k", "Kind")], "rt": True},
        {"name": "TalkRequestClientPacket", "kind": "packet", "dir": "net/client", "family": "Talk", "action": "Request", "code": [field("msg", "string")], "rt": True},
        {"name": "TalkReplyServerPacket", "kind": "packet", "dir": "net/server", "family": "Talk", "action": "Reply", "code": [field("drop", "DropInfo"), field("rec", "ShopRecord")], "rt": True},
        # the same family and action in both directions; names with acronyms and digits (snake_case <-> PascalCase is not a bijection)
        {"name": "TalkRequestServerPacket", "kind": "packet", "dir": "net/server", "family": "Talk", "action": "Request", "code": [field("code", "char")], "rt": True},
        {"name": "NPCPlayerServerPacket", "kind": "packet", "dir": "net/server", "family": "NPC", "action": "Player", "code": [field("t", "NPCType")], "rt": True},
        {"name": "NPCType", "kind": "struct", "dir": "pub", "family": "", "action": "", "code": [field("id", "short")], "rt": True},
        {"name": "Vector2D", "kind": "struct", "dir": "map", "family": "", "action": "", "code": [field("x", "char"), field("y", "char")], "rt": True},
        {"name": "EIFRecord", "kind": "struct", "dir": "pub", "family": "", "action": "", "code": [field("v", "Vector2D"), field("n", "NPCType")], "rt": True},
        # types that are NOT packets in the packet directories; types of a parent package whose module name starts with the name of the
        # importing sub-directory (server_info used from net/server, client_version from net/client, map_coords from map)
        {"name": "ClientOnlyInfo", "kind": "struct", "dir": "net/client", "family": "", "action": "", "code": [field("x", "char")], "rt": True},
        {"name": "ServerOnlyInfo", "kind": "struct", "dir": "net/server", "family": "", "action": "", "code": [field("x", "char"), field("k", "Kind")], "rt": True},
        {"name": "ServerInfo", "kind": "struct", "dir": "net", "family": "", "action": "", "code": [field("id", "short")], "rt": True},
        {"name": "ClientVersion", "kind": "struct", "dir": "net", "family": "", "action": "", "code": [field("major", "char")], "rt": True},
        {"name": "MapCoords", "kind": "struct", "dir": "", "family": "", "action": "", "code": [field("x", "char"), field("y", "char")], "rt": True},
        {"name": "MapWarp", "kind": "struct", "dir": "map", "family": "", "action": "", "code": [field("to", "MapCoords")], "rt": True},
        {"name": "AccountReplyServerPacket", "kind": "packet", "dir": "net/server", "family": "Account", "action": "Reply", "code": [field("info", "ServerInfo"), field("o", "ServerOnlyInfo")], "rt": True},
        {"name": "AccountRequestClientPacket", "kind": "packet", "dir": "net/client", "family": "Account", "action": "Request", "code": [field("v", "ClientVersion"), field("o", "ClientOnlyInfo")], "rt": True},
    ]
    trees.append(("sibling-references", tB, pB))
    # D / E: references INTO the directories where packets live, from a file that is imported before them (known findings F9 / F10)
    tD = {k: dict(v) for k, v in lib.items()}
    S_ = lambda name, d, *code: {"name": name, "kind": "struct", "dir": d, "family": "", "action": "", "code": list(code), "rt": True}
    pk = {"name": "TalkRequestClientPacket", "kind": "packet", "dir": "net/client", "family": "Talk", "action": "Request", "code": [field("m", "string")], "rt": True}
    trees.append(("map-refers-to-net-client", tD, [S_("ByteCoords", "net/client", field("x", "char")), S_("Emf", "map", field("c", "ByteCoords")), dict(pk)]))
    trees.append(("net-refers-to-net-client", {k: dict(v) for k, v in lib.items()}, [S_("ByteCoords", "net/client", field("x", "char")), S_("Hdr", "net", field("c", "ByteCoords")), dict(pk)]))
    # C: SpecGen programs spread over the files
    tC = {k: dict(v) for k, v in lib.items()}
    pC = []
    for n, sp in enumerate(specgen_valid[:40]):
        pC.append({"name": f"G{n}", "kind": "struct", "dir": ["net", "map", "pub", "pub/server"][n % 4], "family": "", "action": "", "code": sp["code"], "rt": False})
    trees.append(("specgen-spread", tC, pC))
    return trees


def model_tree(types, progs):
    allt = dict(types)
    for p in progs:
        if p["kind"] == "struct":
            allt[p["name"]] = {"kind": "struct", "dir": p["dir"], "code": p["code"]}
    files = {}
    for name, t in types.items():
        if any(p["name"] == name for p in progs):
            continue
        files.setdefault(t.get("dir", "net"), []).append({"name": name, "refs": sorted(refs_of(t.get("code", []), allt))})
    for p in progs:
        files.setdefault(p["dir"], []).append({"name": p["name"], "refs": sorted(refs_of(p["code"], allt))})
    return [{"dir": d, "types": ts} for d, ts in sorted(files.items())]


def tla_literal(x):
    if isinstance(x, dict):
        return "[" + ", ".join(f"{k} |-> {tla_literal(v)}" for k, v in x.items()) + "]"
    if isinstance(x, list):
        return "<<" + ", ".join(tla_literal(v) for v in x) + ">>"
    if isinstance(x, str):
        return json.dumps(x)
    return str(x)


def add_comments(files):
    """Documentation comments as the real protocol files carry them: on types, fields and arrays; multi-line, with quotes (also as the
    last character), apostrophes, markup characters and non-ASCII letters.  They end up in docstrings of the generated code."""
    import re
    out = {}
    for d, body in files.items():
        n = [0]

        def text():
            n[0] += 1
            return ['The "quoted" kind', "It's the player's id &amp; more &lt;here&gt;", 'ends with a quote: "this"', "Grüße — naïve café №5",
                    "first line\n      second line"][n[0] % 5]
        body = re.sub(r'(<(?:struct|packet|enum) [^>]*[^/]>)', lambda m: m.group(1) + "\n    <comment>" + text() + "</comment>", body)
        body = re.sub(r'<((?:field|array) [^>]*name="[^"]+"[^>]*)/>', lambda m: "<" + m.group(1) + "><comment>" + text() + "</comment></" + m.group(1).split()[0] + ">", body)
        out[d] = body
    return out


def run_gen(src, xml, out, order, hashseed, tmp, repeat=1):
    of = tmp / "order.json"
    dump_json(of, order)
    env = dict(ENV, PYTHONHASHSEED=str(hashseed))
    if repeat == "locale":
        env.update({"LC_ALL": "C", "LANG": "C", "PYTHONCOERCECLOCALE": "0", "PYTHONUTF8": "0"})     # a plain C locale: the output is still UTF-8
    p = subprocess.run([PY, "-B", str(VERIF / "harness" / "drivers" / "gen_driver.py"), str(src), str(xml), str(out), str(of), str(repeat)],
                       capture_output=True, text=True, timeout=600, env=env)
    if p.returncode != 0:
        raise MachineryError("gen_driver crashed: " + p.stderr[-800:])
    return json.loads(p.stdout.strip().splitlines()[-1])


def run(tier, corrupt=False):
    v = Verdict(PROP, tier)
    cov = {"states": 0, "transitions": 0, "trees": [], "configurations": 0}
    nconf = nclasses = 0
    with scratch("c18-") as tmp:
        sg, rsg = programs(tmp, n=2 if tier == "quick" else 3, depth=2, violating=False)
        valid = [p for p in sg if not p["violations"] and not p["degenerate"]]
        require(len(valid) > 100, "SpecGen produced too few well-formed programs")
        cov["states"] += rsg.distinct
        cov["transitions"] += rsg.generated
        src = snapshot_repo(tmp)
        # (1) the generator succeeds on every well-formed program
        import random
        rng = random.Random(seed())
        sample = valid if len(valid) <= 3000 else rng.sample(valid, 3000)
        verdicts = generator_verdicts(src, tmp / "acc", [(render_program({"name": "P", "kind": "struct", "code": p["code"]}), "net") for p in sample])
        for p, e in zip(sample, verdicts):
            if e is not None:
                xml = " ".join(render_program({"name": "P", "kind": "struct", "code": p["code"]}).split())
                v.violation(f"rejects valid spec: {xml[:400]}", f"the generator fails on a well-formed specification: {e}", {"code": p["code"], "error": e})
        # (2) determinism over schedules/configurations, (3) importability and exports
        for tname, types, progs in make_trees(valid):
            mt = model_tree(types, progs)
            big = sum(len(f["types"]) for f in mt) > 12
            # the schedule space of a big tree is too large for TLC: model-check a projection onto 4 files, sample orders for the rest
            proj = mt if not big else [dict(f, types=f["types"][:2]) for f in mt[:4]]
            known = {t["name"] for f in proj for t in f["types"]}
            proj = [dict(f, types=[dict(t, refs=[r for r in t["refs"] if r in known]) for t in f["types"]]) for f in proj]
            md = tmp / f"model_{tname}"
            md.mkdir()
            import shutil as _sh
            for fn in ("GenPipeline.tla", "MC_GenPipeline.tla", "MC_GenPipeline.cfg"):
                _sh.copy(SPEC / fn, md / fn)
            (md / "TreeData.tla").write_text("---- MODULE TreeData ----\nMCTree == " + tla_literal(proj) + "\n====\n")
            r = run_tlc("MC_GenPipeline", "MC_GenPipeline.cfg", workers=4, timeout=900, coverage=True, cwd=md)
            require(r.ok, f"model-level failure in MC_GenPipeline on tree {tname}:\n" + r.tail())
            for a in ("Discover", "AddImport", "Render", "EmitInit"):
                require(r.coverage.get(a, 0) > 0 or a == "AddImport", f"vacuity: {a} never fired")
            orders = []
            for p in r.printed:
                if isinstance(p, dict) and "order" in p and p["order"] not in orders:
                    orders.append(p["order"])
            require(len(orders) >= 2, "TLC emitted fewer than two discovery orders")
            cov["states"] += r.distinct
            cov["transitions"] += r.generated
            k = 4 if tier == "quick" else 24
            pick = [orders[0], orders[-1]] + [orders[(seed() * 7 + j * 5) % len(orders)] for j in range(k - 2)]
            xml = tmp / f"xml_{tname}"
            tf_ = tree_files(progs, types)
            write_tree(xml, add_comments(tf_) if tname in ("upstream-like", "sibling-references") else tf_)
            canon = None
            configs = []
            for j, order in enumerate(pick):
                for hs in ([0, 1, 2, 3] if tier == "quick" else [0, 1, 2, 3, 4, 5, 1000 + seed()]):
                    configs.append((order, hs, 1, False))
            configs.append((pick[0], 0, 2, False))          # twice in a row into one directory
            configs.append((pick[-1], 3, 1, True))          # into a pre-populated directory
            configs.append((pick[0], 1, "reuse", False))    # the same generator instance, after a run that failed on a then-broken file
            configs.append((pick[-1], 2, "decoy", False))   # after another instance generated a tree with the same names and other ordinals
            configs.append((pick[0], 0, "locale", False))   # under a C locale without UTF-8 mode
            configs.append((pick[-1], 1, "dotroot", False)) # the input root given as "." (the XML tree is the working directory)
            expected_paths = None
            for ci, (order, hs, repeat, prepop) in enumerate(configs):
                out = tmp / f"out_{tname}_{ci}"
                if prepop:
                    import shutil
                    if not (tmp / f"out_{tname}_0").exists():
                        continue            # the first run already failed (reported above): nothing to pre-populate from
                    shutil.copytree(tmp / f"out_{tname}_0", out)
                    (out / "net").mkdir(exist_ok=True)
                    stale = sorted((out / "net").glob("*.py"))
                    if stale:
                        stale[0].write_text("# stale content from an older run\n")
                    for sf in stale[1:3]:
                        # ... and files of the right SIZE with different content (an older revision of the spec)
                        txt = sf.read_text()
                        sf.write_text(txt.replace("def ", "deF ", 1) if "def " in txt else txt[:-2] + "#\n")
                res = run_gen(src, xml, out, order, hs, tmp, repeat)
                nconf += 1
                if corrupt and ci == 2 and res["files"]:
                    kf = sorted(res["files"])[0]
                    res["files"][kf] = "0" * 64
                cfg_desc = f"order={order} PYTHONHASHSEED={hs} repeat={repeat} prepopulated={prepop}"
                if res["exc"]:
                    v.violation(f"tree {tname}: generator fails ({res['exc'][:80]})", f"valid tree {tname} is rejected under {cfg_desc}: {res['exc']}", {"tree": tname, "config": cfg_desc})
                    continue
                if canon is None:
                    canon = res["files"]
                    pred = set()
                    for f in model_tree(types, progs):
                        for t in f["types"]:
                            pred.add((f["dir"] + "/" if f["dir"] else "") + snake(t["name"]) + ".py")
                        pred.add((f["dir"] + "/" if f["dir"] else "") + "__init__.py")
                    for d in ("", "net", "net/client", "net/server", "map", "pub", "pub/server"):       # the skeleton every importable tree has
                        pred.add((d + "/" if d else "") + "__init__.py")
                    pred |= {"net/packet_family.py", "net/packet_action.py"}
                    if set(canon) != pred:
                        v.violation(f"tree {tname}: generated path set", f"generated files differ from the declared types: missing {sorted(pred - set(canon))[:5]}, unexpected {sorted(set(canon) - pred)[:5]}",
                                    {"tree": tname, "missing": sorted(pred - set(canon)), "unexpected": sorted(set(canon) - pred)})
                    continue
                diff = sorted(p for p in set(canon) | set(res["files"]) if canon.get(p) != res["files"].get(p))
                if diff:
                    v.violation(f"tree {tname}: output differs in {diff[:3]} under {cfg_desc}", f"generation is not a pure function of the XML: {len(diff)} file(s) differ from the first run, e.g. {diff[:3]}",
                                {"tree": tname, "config": cfg_desc, "files": diff[:20]})
            # importability / exports: generate into the snapshot copy and import in a fresh interpreter
            import shutil
            wsrc = tmp / f"pkg_{tname}"
            shutil.copytree(src, wsrc)
            res = run_gen(wsrc, xml, wsrc / "eolib" / "protocol" / "_generated", pick[0], 0, tmp)
            decls = [{"name": t["name"], "dir": f["dir"]} for f in model_tree(types, progs) for t in f["types"]]
            dump_json(tmp / "decls.json", decls)
            p = subprocess.run([PY, "-B", str(VERIF / "harness" / "drivers" / "export_driver.py"), str(wsrc), str(tmp / "decls.json")],
                               capture_output=True, text=True, timeout=600, env=dict(ENV, PYTHONHASHSEED="0"))
            if p.returncode != 0:
                raise MachineryError("export_driver crashed: " + p.stderr[-800:])
            ex = json.loads(p.stdout.strip().splitlines()[-1])
            if ex["import_error"]:
                v.violation(f"tree {tname}: package not importable ({ex['import_error'].split(':')[0]})", f"import eolib fails for valid tree {tname}: {ex['import_error']}", {"tree": tname, "trace": ex.get("trace")})
            for c in ex["classes"]:
                nclasses += 1
                missing = [w for w in ("home", "subpackage", "protocol", "top") if not c[w]]
                if missing or c["err"]:
                    v.violation(f"tree {tname}: class {c['name']} ({c['dir'] or 'root'}) not exported from {missing}" + (f" {c['err'].split(':')[0]}" if c["err"] else ""),
                                f"declared class {c['name']} is not the same object at: {missing} {c['err']}", {"tree": tname, "class": c})
            cov["trees"].append({"name": tname, "files": len(mt), "types": sum(len(f["types"]) for f in mt), "orders_from_tlc": len(orders), "configurations": len(configs),
                                 "model_states": r.distinct})
    cov.update({"traces_validated_against_impl": nconf + len(sample), "configurations": nconf, "classes_checked_for_export": nclasses, "valid_programs_accepted": len(sample),
                "samples": [{"tree": cov["trees"][0]["name"], "order": pick[0], "hashseed": 0}, {"tree": cov["trees"][-1]["name"], "order": pick[-1], "hashseed": 1}],
                "exhaustive": False,
                "explanation": "3 spec trees with cross-file references x TLC-chosen discovery orders x hash seeds x repeated / pre-populated runs; every well-formed SpecGen program accepted"})
    return v.finish(cov, ["hash-seed nondeterminism can only be sampled", "file content is compared by digest between runs (its meaning is C01-C03's business)",
                          "os.walk is the generator's only source of directory order"])


def selftest(tier):
    common.SELFTEST = True
    rc = run("quick", corrupt=True)
    print("SELFTEST OK: a differing digest is reported" if rc == 1 else "SELFTEST FAILED")
    return 0 if rc == 1 else 2


def replay(path):
    print(json.dumps(json.loads(open(path).read())["case"], indent=1)[:4000])
    return 0
