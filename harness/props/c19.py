"""C19 - generated protocol objects are immutable snapshots.

Model: spec/ProtoObject.tla lists, for an instance of any generated class, every attempted change through the public
interface (assignment to each field / byte_size / nested case-data and struct fields, in-place mutation of array fields,
later mutation of the caller's lists) and says what each does: nothing, with AttributeError for assignments.  TLC
(MC_Proto mode "mut") enumerates all histories of HDEPTH actions for an instance of every program (action property
PImmutable).  Binding: R - every history runs on a constructed and on a deserialized real instance; after every action
the instance is projected and serialized; judged on the observation: assignments raise AttributeError, array fields are
tuples, projection and bytes never change."""
from __future__ import annotations

import json

from ..common import MachineryError, Verdict, require, scratch
from ..corpus import library
from ..proto import default_corpus, full_corpus, prepare_world, run_drivers_parallel
from .. import common
from ._proto_common import short
from .c02 import collect

PROP = "C19"


def _kinds(proj, out):
    if isinstance(proj, dict):
        for k, val in proj.items():
            if k.startswith("_kind_"):
                out.append((k[6:], val))
            else:
                _kinds(val, out)
    elif isinstance(proj, list):
        for x in proj:
            _kinds(x, out)
    return out


def run(tier, corrupt=False):
    v = Verdict(PROP, tier)
    types = library()
    hd = 2 if tier == "quick" else 3
    with scratch("c19-") as tmp:
        progs = full_corpus(tmp, tier, n_generated=(200 if tier == "quick" else 500))
        if tier == "quick":
            recs, stats = collect(tier, tmp, progs, types, "mut", rich=False, properties=("PImmutable",), tag="mut", hdepth=hd)
        else:
            # histories of 3 actions on the hand-written programs, of 2 on the generated ones (the number of histories is cubic in the targets)
            hand = [p for p in progs if not p.get("gen")]
            gen_ = [p for p in progs if p.get("gen")]
            r_a, stats = collect(tier, tmp, hand, types, "mut", rich=False, properties=("PImmutable",), tag="mut3", hdepth=3)
            r_b, s_b = collect(tier, tmp, gen_, {**types, **{p["name"]: {"kind": "struct", "dir": p["dir"], "code": p["code"]} for p in hand if p["kind"] == "struct"}},
                               "mut", rich=False, properties=("PImmutable",), tag="mut2", hdepth=2)
            recs = r_a + r_b
            stats["states"] += s_b["states"]
            stats["transitions"] += s_b["transitions"]
        recs = [r for r in recs if r["kind"] == "mut"]
        require(len(recs) > 500, f"too few histories from TLC ({len(recs)})")
        with scratch("c19w-") as wt:
            src, accepted, rejected = prepare_world(wt, progs, types)
            acc = {p["name"] for p in accepted}
            kept = [r for r in recs if r["prog"] in acc]
            # batches bound the memory: results carry a projection and a serialization per step (the thorough tier had reached 26 GB)
            n = nsteps = 0
            seen_variants = set()
            BATCH = 40000
            for b0 in range(0, len(kept), BATCH):
                batch = kept[b0:b0 + BATCH]
                cases, meta = [], []
                for r in batch:
                    acts = [dict(h["act"]) for h in r["hist"]]
                    cases.append({"kind": "mut", "prog": r["prog"], "obj": r["obj"], "salt": 0, "actions": acts})
                    meta.append((r, "constructed"))
                    if any(a["op"] == "mutate_arg" for a in acts):
                        # the instance may not have been looked at yet when the caller changes its list (nothing is copied lazily)
                        cases.append({"kind": "mut", "prog": r["prog"], "obj": r["obj"], "salt": 0, "actions": acts, "blind": True})
                        meta.append((r, "constructed, not read before the history"))
                        # the caller's iterable need not be a list: byte-sized integer arrays are also passed as a bytearray
                        cases.append({"kind": "mut", "prog": r["prog"], "obj": r["obj"], "salt": 0, "actions": acts, "arg_kind": "bytearray"})
                        meta.append((r, "constructed from bytearray"))
                        # ... or any other iterable: a user-defined sequence object, a generator
                        cases.append({"kind": "mut", "prog": r["prog"], "obj": r["obj"], "salt": 0, "actions": acts, "arg_kind": "sequence"})
                        meta.append((r, "constructed from a user-defined sequence"))
                        cases.append({"kind": "mut", "prog": r["prog"], "obj": r["obj"], "salt": 0, "actions": acts, "arg_kind": "generator"})
                        meta.append((r, "constructed from a generator"))
                    cases.append({"kind": "mut", "prog": r["prog"], "from_bytes": r["bytes"], "actions": [a for a in acts if a["op"] != "mutate_arg"]})
                    meta.append((r, "deserialized"))
                # instances whose serialization is REFUSED (case data left None) must not be changed by the attempt either
                for r in batch:
                    def none_variants(o, path=()):
                        for k_, v_ in o.items():
                            if isinstance(v_, dict):
                                if k_.endswith("_data"):
                                    yield path + (k_,)
                                yield from none_variants(v_, path + (k_,))
                    for pth in none_variants(r["obj"]):
                        o2 = json.loads(json.dumps(r["obj"]))
                        cur = o2
                        for k_ in pth[:-1]:
                            cur = cur[k_]
                        cur[pth[-1]] = "None"
                        sig = json.dumps(o2, sort_keys=True)
                        if sig in seen_variants:
                            continue
                        seen_variants.add(sig)
                        cases.append({"kind": "mut", "prog": r["prog"], "obj": o2, "salt": 0, "actions": [{"op": "serialize", "path": [], "name": "", "how": ""}]})
                        meta.append((dict(r, obj=o2), "constructed, case data " + ".".join(pth) + " left None"))
                imp, results = run_drivers_parallel(src, wt, accepted, types, cases)
                if imp:
                    v.violation("generated package not importable", imp.strip().splitlines()[-1], {"trace": imp})
                    results = []
                for (r, how), c, o in zip(meta, cases, results):
                    n += 1
                    if "harness_error" in o:
                        raise MachineryError(o["harness_error"])
                    if o["ctor_exc"]:
                        continue        # constructibility is C02's business
                    init = o["initial"]
                    if init.get("same_writer_twice"):
                        v.violation(f"{r['prog']} ({how}) twice into one writer", "serializing the same instance twice into one writer gave different bytes: " + init["same_writer_twice"], {"prog": r["prog"], "how": how, "obj": r["obj"], "initial": init})
                    if init.get("write_differs"):
                        v.violation(f"{r['prog']} ({how}) write() differs from serialize()", "the packet's write() does not produce the bytes of serialize()", {"prog": r["prog"], "how": how, "obj": r["obj"], "initial": init})
                    if init["proj_after_serialize"] != init["proj"] or init.get("repr_changed_by_serialize"):
                        v.violation(f"{r['prog']} ({how}) serialize changes the instance", f"serializing changed the instance: {short(init['proj'])} -> {short(init['proj_after_serialize'])}",
                                    {"prog": r["prog"], "how": how, "obj": r["obj"], "initial": init})
                    if corrupt and n == 12 and o["steps"]:
                        o["steps"][-1]["ser"] = [0] + (o["steps"][-1]["ser"] if isinstance(o["steps"][-1]["ser"], list) else [])
                    base = f"{r['prog']} ({how})"
                    for name, kind in _kinds(init["proj"], []):
                        if kind not in ("tuple", "NoneType"):
                            v.violation(f"{base} array field {name} is a {kind}", f"array field {name} of a {how} instance is a {kind}, not a tuple",
                                        {"prog": r["prog"], "how": how, "obj": r["obj"], "field": name, "kind": kind})
                    for si, st in enumerate(o["steps"]):
                        nsteps += 1
                        a = st["action"]
                        hist = " ; ".join(f"{x['op']}({'.'.join(x['path'] + [x['name']])}{',' + x['how'] if x['how'] else ''})" for x in c["actions"][:si + 1])
                        case = {"prog": r["prog"], "how": how, "obj": r["obj"], "actions": c["actions"][:si + 1], "observed": st, "initial": init}
                        if st["exc"].startswith("HARNESS"):
                            raise MachineryError(st["exc"])
                        if a["op"] == "setattr" and st["exc"] != "AttributeError":
                            v.violation(f"{base} {hist}", f"assignment to {'.'.join(a['path'] + [a['name']])} raised {st['exc'] or 'nothing'} instead of AttributeError", case)
                        if st["proj"] != init["proj"] or st["proj_after_serialize"] != init["proj"]:
                            v.violation(f"{base} {hist}", f"the instance changed: {short(st['proj'])} (was {short(init['proj'])})", case)
                        elif st["ser"] != init["ser"]:
                            v.violation(f"{base} {hist}", f"serializing the same instance again gave {st['ser']} (first time {init['ser']})", case)
    cov = dict(stats)
    cov.update({"traces_validated_against_impl": n, "actions_checked": nsteps, "history_depth": hd, "programs": len(progs),
                "samples": [{"prog": kept[0]["prog"], "hist": [h["act"] for h in kept[0]["hist"]]}, {"prog": kept[-1]["prog"], "hist": [h["act"] for h in kept[-1]["hist"]]}],
                "exhaustive": False,
                "explanation": f"all histories of {hd} actions over every public mutation target of one instance per program (constructed and deserialized)"})
    return v.finish(cov, ["the corpus bounds 'all programs'", "one representative instance per program (tiny value domains)"])


def selftest(tier):
    common.SELFTEST = True
    rc = run("quick", corrupt=True)
    print("SELFTEST OK: corrupted observation rejected" if rc == 1 else "SELFTEST FAILED")
    return 0 if rc == 1 else 2


def replay(path):
    print(json.dumps(json.loads(open(path).read())["case"], indent=1)[:6000])
    return 0
