"""C17 - the generator rejects ill-formed specifications instead of emitting code.

Model: spec/ProtoGrammar.tla states the grammar rules as a context walk (Violations(code)); spec/SpecGen.tla is a builder
machine that composes instruction templates - valid and rule-violating - freely at every placement (top level, <chunked>,
<case>, chunked-in-case, case-in-chunked, after <break>, second case, after <switch>); TLC enumerates every program up to
the bound and the grammar classifies it.  Binding: R - each ill-formed program is rendered to XML and handed to the real
ProtocolCodeGenerator in its own tree; it must raise.  Declaration-level rules (redefined/unknown types, malformed enums,
underlying types, unknown packet family/action) come from a fixed catalogue applied in several files."""
from __future__ import annotations

import json

from ..common import MachineryError, Verdict, require, scratch, seed, snapshot_repo
from ..corpus import render, render_program
from ..specgen import generator_verdicts, programs
from .. import common

PROP = "C17"

ENUM_OK = '<enum name="E1" type="char"><value name="A">1</value><value name="B">2</value></enum>'
TREE_CATALOGUE = [
    # (rule, description, {dir: body}) - every entry is ill-formed
    ("R1", "struct redefined in the same file", {"net": '<struct name="S1"><field name="a" type="char"/></struct><struct name="S1"><field name="b" type="char"/></struct>'}),
    ("R1", "struct redefined in another file", {"net": '<struct name="S1"><field name="a" type="char"/></struct>', "pub": '<struct name="S1"><field name="b" type="char"/></struct>'}),
    ("R1", "enum redefined in another file", {"net": ENUM_OK, "map": ENUM_OK}),
    ("R1", "enum redefined as struct", {"net": ENUM_OK, "net/server": '<struct name="E1"><field name="b" type="char"/></struct>'}),
    ("R1", "library type redefined in a second file", {"pub/server": '<struct name="Coords"><field name="b" type="char"/></struct>'}),
    ("R2", "unknown type in a second file", {"pub": '<struct name="S2"><field name="a" type="Missing"/></struct>'}),
    ("R2", "unknown element type of an array in net/client", {"net/client": '<struct name="S2"><array name="a" type="Missing"/></struct>'}),
    ("R13", "enum value not numeric", {"net": '<enum name="E2" type="char"><value name="A">x</value></enum><struct name="U"><field name="e" type="E2"/></struct>'}),
    ("R13", "enum ordinal duplicated", {"net": '<enum name="E2" type="char"><value name="A">1</value><value name="B">1</value></enum><struct name="U"><field name="e" type="E2"/></struct>'}),
    ("R13", "enum value name duplicated", {"map": '<enum name="E2" type="char"><value name="A">1</value><value name="A">2</value></enum><struct name="U"><field name="e" type="E2"/></struct>'}),
    ("R13", "enum value name duplicated, the first one with ordinal 0", {"net": '<enum name="E2" type="char"><value name="A">0</value><value name="B">1</value><value name="A">2</value></enum><struct name="U"><field name="e" type="E2"/></struct>'}),
    ("R13", "enum ordinal 0 duplicated", {"pub": '<enum name="E2" type="char"><value name="A">0</value><value name="B">0</value></enum><struct name="U"><field name="e" type="E2"/></struct>'}),
    ("R13", "enum value name duplicated with equal ordinals", {"net": '<enum name="E2" type="char"><value name="A">0</value><value name="A">0</value></enum><struct name="U"><field name="e" type="E2"/></struct>'}),
    ("R15", "switch on an array of enums", {"net": '<struct name="U"><array name="cs" type="Color" length="2"/><switch field="cs"><case value="Red"><field name="x" type="char"/></case></switch></struct>'}),
    ("R15", "switch on an array of integers, in a packet", {"net/client": '<packet family="Talk" action="Request"><array name="cs" type="char" length="2"/><switch field="cs"><case value="1"><field name="x" type="char"/></case></switch></packet>'}),
    ("R11", "hardcoded string longer than its declared length 0", {"net": '<struct name="U"><field type="string" length="0">x</field><field name="a" type="char"/></struct>'}),
    ("R11", "named hardcoded string longer than length 0, inside a chunked section", {"pub": '<struct name="U"><chunked><field name="t" type="string" length="0" padded="true">ab</field></chunked></struct>'}),
    ("R16", "numeric case label for a NAMED enum value above 256", {"net": '<enum name="Big" type="short"><value name="Low">1</value><value name="High">300</value></enum><struct name="U"><field name="b" type="Big"/><switch field="b"><case value="300"><field name="x" type="char"/></case></switch></struct>'}),
    ("R16", "numeric case label for a named enum value (small)", {"pub": '<struct name="U"><field name="c" type="Color"/><switch field="c"><case value="1"><field name="x" type="char"/></case></switch></struct>'}),
    ("R4", "length refers to an ordinary field, not a <length>", {"net": '<struct name="U"><field name="n" type="char"/><field name="s" type="string" length="n"/></struct>'}),
    ("R4", "length refers to an ordinary field, inside a case of a packet", {"net/server": '<packet family="Talk" action="Reply"><field name="k" type="char"/><switch field="k"><case value="1"><field name="n" type="short"/><array name="xs" type="char" length="n"/></case></switch></packet>'}),
    ("R14", "enum underlying type is a string", {"net": '<enum name="E3" type="string"><value name="A">1</value></enum><struct name="U"><field name="e" type="E3"/></struct>'}),
    ("R14", "enum underlying type is itself", {"net": '<enum name="E3" type="E3"><value name="A">1</value></enum><struct name="U"><field name="e" type="E3"/></struct>'}),
    ("R14", "enum underlying type unknown", {"pub": '<enum name="E3" type="word"><value name="A">1</value></enum><struct name="U"><field name="e" type="E3"/></struct>'}),
    ("R14", "override with two colons", {"net": '<struct name="U"><field name="e" type="Color:char:short"/></struct>'}),
    ("R14", "override that is not numeric", {"net": '<struct name="U"><field name="e" type="Color:string"/></struct>'}),
    ("R14", "override on a type without underlying type", {"net": '<struct name="U"><field name="e" type="string:char"/></struct>'}),
    ("R14", "override on a basic integer type (short:char)", {"net": '<struct name="U"><field name="e" type="short:char"/></struct>'}),
    ("R14", "override on a basic integer type (int:three), in an array", {"pub": '<struct name="U"><array name="e" type="int:three"/></struct>'}),
    ("R14", "override on byte (byte:char), inside a chunked section of a packet", {"net/client": '<packet family="Talk" action="Request"><chunked><field name="e" type="byte:char"/></chunked></packet>'}),
    ("R14", "override equal to the type", {"net/server": '<struct name="U"><field name="e" type="char:char"/></struct>'}),
    ("R14", "override on a struct, inside a switch case", {"net": '<struct name="U"><field name="k" type="char"/><switch field="k"><case value="1"><field name="c" type="Coords:char"/></case></switch></struct>'}),
    ("R17", "unknown packet family", {"net/client": '<packet family="Nope" action="Request"><field name="a" type="char"/></packet>'}),
    ("R17", "unknown packet action", {"net/server": '<packet family="Talk" action="Nope"><field name="a" type="char"/></packet>'}),
    ("R17", "packet redefined in the same file", {"net/client": '<packet family="Talk" action="Request"><field name="a" type="char"/></packet><packet family="Talk" action="Request"><field name="b" type="char"/></packet>'}),
    ("R17", "packet outside net/client and net/server", {"pub": '<packet family="Talk" action="Request"><field name="a" type="char"/></packet>'}),
]
TREE_VALID = [
    ("valid", "two structs, enum, packet in both directions", {"net": ENUM_OK + '<struct name="S1"><field name="a" type="E1"/></struct>', "pub": '<struct name="S2"><field name="s" type="S1"/></struct>',
                                                               "net/client": '<packet family="Talk" action="Request"><field name="a" type="S1"/></packet>',
                                                               "net/server": '<packet family="Talk" action="Request"><field name="a" type="char"/></packet>'}),
]


def _oneline(code):
    return " ".join(render(code, "").split())


def run(tier, corrupt=False):
    v = Verdict(PROP, tier)
    with scratch("c17-") as tmp:
        progs, r = programs(tmp, n=2 if tier == "quick" else 3, depth=2, violating=True)
        require(len(progs) > 1000, f"SpecGen produced too few programs ({len(progs)})")
        extra = []
        if tier == "quick":
            extra, r2 = programs(tmp, n=4, depth=3, violating=True, simulate=1500, seed=seed() + 17, timeout=120)
        else:
            import random
            rng = random.Random(seed())
            rng.shuffle(progs)
            progs = progs[:30000]
        # deep structural exploration over the core templates (required / optional field, dummy, break x chunked / switch / case scopes)
        import random as _r
        core, r3 = programs(tmp, n=5, depth=2, violating=False, core=True)
        rngc = _r.Random(seed() + 1)
        core_bad = [p for p in core if p["violations"]]
        rngc.shuffle(core_bad)
        core_ok = [p for p in core if not p["violations"]]
        extra = extra + core_bad[:(4000 if tier == "quick" else 60000)] + core_ok[:300]
        allp = progs + [p for p in extra]
        bad = [p for p in allp if p["violations"]]
        good = [p for p in allp if not p["violations"] and not p["degenerate"]]
        require(bad and good, "vacuity: SpecGen/ProtoGrammar produced only one verdict")
        rules = {}
        for p in bad:
            for ru in p["violations"]:
                rules[ru] = rules.get(ru, 0) + 1
        for ru in ("R2", "R3", "R4", "R6", "R7", "R8", "R9", "R10", "R11", "R12", "R15", "R16"):
            require(rules.get(ru, 0) > 0, f"vacuity: no program violating {ru}")
        src = snapshot_repo(tmp)
        bodies = [(render_program({"name": "P", "kind": "struct", "code": p["code"]}), "net") for p in bad]
        # a third of the ill-formed programs are also tried as packets in net/client (same rules apply to packets)
        pk = [p for i, p in enumerate(bad) if i % 3 == 0]
        bodies += [(render_program({"name": "x", "kind": "packet", "family": "Talk", "action": "Request", "code": p["code"]}), "net/client") for p in pk]
        verdicts = generator_verdicts(src, tmp / "gen", bodies)
        n = 0
        for p, (body, d), verdict in zip(bad + pk, bodies, verdicts):
            n += 1
            if corrupt and n == 3:
                verdict = None
            if verdict is None:
                key = f"rules={sorted(p['violations'])} in {d}: {_oneline(p['code'])}"
                v.violation(key[:500], f"the generator accepted a specification that breaks {sorted(p['violations'])}", {"code": p["code"], "xml": body, "dir": d, "violations": p["violations"]})
        # declaration-level catalogue
        from ..specgen import lib_files
        from ..gen import generate, write_tree
        ntree = 0
        # every single-file declaration-level violation is also tried in the other package directories (a check that lapses in a
        # second file, or only outside net/, is the kind of change the property's "wherever it occurs" is about)
        catalogue = list(TREE_CATALOGUE)
        for rule, what, files in TREE_CATALOGUE:
            if len(files) == 1 and "<packet" not in next(iter(files.values())) and "library type" not in what:
                (d0, body), = files.items()
                for d in ("net", "map", "pub", "pub/server", "net/client", ""):
                    if d != d0:
                        catalogue.append((rule, f"{what} (in {d or 'the root file'})", {d: body}))
        for rule, what, files in catalogue + TREE_VALID:
            root = tmp / f"tree{ntree}"
            ntree += 1
            fs = lib_files()
            for d, body in files.items():
                fs[d] = fs.get(d, "") + body
            write_tree(root / "xml", fs)
            e = generate(src, root / "xml", root / "out")
            if rule == "valid":
                require(e is None, f"catalogue self-check: the valid tree '{what}' is rejected: {e!r} (C18's business, and the catalogue would be vacuous)")
            elif e is None:
                v.violation(f"{rule}: {what}", f"the generator accepted a tree with: {what}", {"rule": rule, "files": files})
        # accept half, recorded for the evidence (asserted by C18)
        gv = generator_verdicts(src, tmp / "gen2", [(render_program({"name": "P", "kind": "struct", "code": p["code"]}), "net") for p in good[:400]])
        valid_rejected = [(_oneline(p["code"]), e) for p, e in zip(good, gv) if e is not None]
    cov = {"states": r.distinct, "transitions": r.generated, "traces_validated_against_impl": n + ntree,
           "programs_from_specgen": len(allp), "ill_formed": len(bad), "well_formed": len(good), "rule_counts": rules,
           "single_rule_programs": sum(1 for p in bad if len(p["violations"]) == 1), "core_deep_programs_enumerated": len(core),
           "declaration_catalogue": ntree - len(TREE_VALID), "well_formed_but_rejected_by_generator": valid_rejected[:10],
           "samples": [{"violations": bad[0]["violations"], "xml": _oneline(bad[0]["code"])}, {"violations": bad[-1]["violations"], "xml": _oneline(bad[-1]["code"])}],
           "exhaustive": tier == "quick",
           "explanation": "every program SpecGen can build with <= 2 (3) instructions at nesting depth <= 2 from 18 valid and 11 violating templates, "
                          "classified by ProtoGrammar; plus simulated deeper programs; plus 22 declaration-level violations in several files"}
    return v.finish(cov, ["the template alphabet bounds 'all valid specs x all single edits'", "R11 relies on the builder's label of the hardcoded text",
                          "constructs the grammar documents are silent about are not asserted"])


def selftest(tier):
    common.SELFTEST = True
    rc = run("quick", corrupt=True)
    print("SELFTEST OK: an accepted ill-formed program is reported" if rc == 1 else "SELFTEST FAILED")
    return 0 if rc == 1 else 2


def replay(path):
    print(json.dumps(json.loads(open(path).read())["case"], indent=1)[:4000])
    return 0
