"""Shared machinery: repo snapshot, TLC/Apalache runners, evidence, known findings, verdicts.

Standard library only; runs under /venv/bin/python (3.12) and python3-vt (3.11).
Exit-code contract (DESIGN.md section 4): 0 held, 1 VIOLATION, 2 machinery failure.
"""
from __future__ import annotations

import contextlib
import hashlib
import importlib
import json
import os
import re
import shutil
import subprocess
import sys
import tempfile
import time
import types
from pathlib import Path

VERIF = Path(__file__).resolve().parent.parent
SPEC = VERIF / "spec"
# (tools/ may redirect evidence and replays so that runs against scratch copies of /repo leave the committed evidence alone)
EVIDENCE = Path(os.environ.get("VERIF_EVIDENCE_DIR", str(VERIF / "evidence")))
REPLAYS = Path(os.environ.get("VERIF_REPLAY_DIR", str(VERIF / "replays")))
REPO = Path(os.environ.get("VERIF_REPO", "/repo"))
PY = os.environ.get("VERIF_PYTHON", "/venv/bin/python")
TLA_CP = "/opt/veriftools/tla/tla2tools.jar:/opt/veriftools/tla/CommunityModules-deps.jar"
NCPU = max(1, min(16, os.cpu_count() or 1))


class MachineryError(Exception):
    """Raised for failures of the verification machinery itself (exit 2, never a VIOLATION)."""


def seed() -> int:
    try:
        return int(os.environ.get("VERIF_SEED", "0"))
    except ValueError:
        return 0


# --------------------------------------------------------------------------------------
# snapshot of /repo's working tree
# --------------------------------------------------------------------------------------

@contextlib.contextmanager
def scratch(prefix="verif-"):
    base = os.environ.get("VERIF_TMP") or tempfile.gettempdir()
    d = tempfile.mkdtemp(prefix=prefix, dir=base)
    try:
        yield Path(d)
    finally:
        shutil.rmtree(d, ignore_errors=True)


def snapshot_repo(dest: Path) -> Path:
    """Copy the library and the generator from /repo's *working tree* into dest/src."""
    src = dest / "src"
    src.mkdir(parents=True, exist_ok=True)
    ign = shutil.ignore_patterns("__pycache__", "*.pyc", "_generated")
    shutil.copytree(REPO / "src" / "eolib", src / "eolib", ignore=ign)
    shutil.copytree(REPO / "protocol_code_generator", src / "protocol_code_generator", ignore=ign)
    return src


def repo_rev() -> str:
    try:
        h = subprocess.run(["git", "-C", str(REPO), "rev-parse", "--short", "HEAD"],
                           capture_output=True, text=True).stdout.strip()
        d = subprocess.run(["git", "-C", str(REPO), "status", "--porcelain", "--untracked-files=no"],
                           capture_output=True, text=True).stdout.strip()
        return h + ("+dirty" if d else "")
    except Exception:
        return "unknown"


def load_eolib_stubbed(src: Path):
    """Make `eolib.data`, `eolib.encrypt`, `eolib.packet`, `eolib.protocol.<leaf module>` importable
    from the snapshot without executing eolib/__init__.py or eolib/protocol/__init__.py (they need
    the generated code, which the hand-written layers do not).
    """
    sys.dont_write_bytecode = True
    for k in [k for k in sys.modules if k == "eolib" or k.startswith("eolib.")]:
        del sys.modules[k]
    sys.path.insert(0, str(src))
    root = types.ModuleType("eolib")
    root.__path__ = [str(src / "eolib")]
    sys.modules["eolib"] = root
    proto = types.ModuleType("eolib.protocol")
    proto.__path__ = [str(src / "eolib" / "protocol")]
    sys.modules["eolib.protocol"] = proto
    root.protocol = proto
    return root


def imp(name: str):
    return importlib.import_module(name)


# --------------------------------------------------------------------------------------
# EO number <-> limb pair (DESIGN 3.3).  Only a binary split: no base-253 arithmetic here.
# --------------------------------------------------------------------------------------

def limbs(n: int):
    return [n >> 16, n & 0xFFFF]


def unlimbs(p) -> int:
    return p[0] * 65536 + p[1]


# --------------------------------------------------------------------------------------
# TLC
# --------------------------------------------------------------------------------------

def die_with_parent():
    """preexec_fn: the child is killed when this process dies (a harness killed by the kernel used to leave TLC running for hours)."""
    try:
        import ctypes
        import signal as _signal
        ctypes.CDLL("libc.so.6").prctl(1, _signal.SIGKILL)       # PR_SET_PDEATHSIG
    except Exception:
        pass


class TLCResult:
    def __init__(self, rc, out, wall):
        self.rc = rc
        self.out = out
        self.wall = wall
        self.generated = 0
        self.distinct = 0
        self.depth = 0
        m = None
        for m in re.finditer(r"(\d+) states generated, (\d+) distinct states found", out):
            pass
        if m:
            self.generated, self.distinct = int(m.group(1)), int(m.group(2))
        if not m:
            ms = re.search(r"The number of states generated: (\d+)", out)
            if ms:
                self.generated = self.distinct = int(ms.group(1))
        m = re.search(r"depth of the complete state graph search is (\d+)", out)
        if m:
            self.depth = int(m.group(1))
        self.printed = []
        for line in out.splitlines():
            if line.startswith('"') and line.endswith('"') and len(line) >= 2:
                try:
                    s = json.loads(line)
                except Exception:
                    continue
                try:
                    self.printed.append(json.loads(s))
                except Exception:
                    self.printed.append(s)
        self.invariant_violated = re.findall(r"Invariant (\S+) is violated", out)
        self.property_violated = re.findall(r"(?:Action|Temporal) propert(?:y|ies) (\S+) (?:is|was|were) violated", out)
        if "Temporal properties were violated" in out:
            self.property_violated.append("temporal")
        self.deadlock = "Deadlock reached" in out
        self.ok = ("Model checking completed. No error has been found." in out) or (
            "Finished computing" in out and rc == 0 and not self.invariant_violated)
        self.error = None
        if not self.ok and not self.invariant_violated and not self.property_violated and not self.deadlock:
            m = re.search(r"Error: (.*)", out)
            self.error = m.group(1) if m else f"tlc rc={rc}"
        # coverage: "<Action line ..., col ... of module M>: distinct:generated"
        self.coverage = {}
        for m in re.finditer(r"<(\w+) line \d+, col \d+ to line \d+, col \d+ of module (\w+)>: (\d+):(\d+)", out):
            self.coverage[m.group(1)] = self.coverage.get(m.group(1), 0) + int(m.group(4))

    def tail(self, n=40):
        keep = [l for l in self.out.splitlines() if not re.match(r"^\s*\|*line \d+|^<\w+ line|^\s*\|+", l) and not l.startswith('"')]
        return "\n".join(keep[-n:])


def run_tlc(module: str, cfg: str | None = None, *, workers: int | str = NCPU, env: dict | None = None,
            timeout: int = 3600, simulate: str | None = None, depth: int | None = None,
            coverage: bool = False, deadlock: bool | None = None, extra: list | None = None,
            heap: str = "8g", cwd: Path | None = None, dfs: bool = False) -> TLCResult:
    """Run TLC on spec/<module>.tla with spec/<cfg>; returns parsed result.  Never raises on a
    property violation; raises MachineryError on crashes / parse errors / timeouts."""
    cwd = cwd or SPEC
    with scratch("tlcmeta-") as meta:
        cmd = ["java", "-XX:+UseParallelGC", f"-Xmx{heap}", "-Xss32m"]
        if dfs:
            cmd.append("-Dtlc2.tool.queue.IStateQueue=StateDeque")
        cmd += ["-cp", TLA_CP, "tlc2.TLC", "-workers", str(workers), "-metadir", str(meta),
                "-noGenerateSpecTE", "-config", cfg or (module + ".cfg")]
        if simulate:
            cmd += ["-simulate", simulate]
        if depth is not None:
            cmd += ["-depth", str(depth)]
        if coverage:
            cmd += ["-coverage", "1"]
        if deadlock is False:
            pass
        if extra:
            cmd += extra
        cmd.append(module + ".tla")
        e = dict(os.environ)
        e.pop("JAVA_TOOL_OPTIONS", None)
        if env:
            e.update({k: str(v) for k, v in env.items()})
        t0 = time.time()
        try:
            p = subprocess.run(cmd, cwd=str(cwd), env=e, capture_output=True, text=True, timeout=timeout, preexec_fn=die_with_parent)
        except subprocess.TimeoutExpired as ex:
            subprocess.run(["pkill", "-f", str(meta)], capture_output=True)
            raise MachineryError(f"TLC timed out after {timeout}s on {module}") from ex
        res = TLCResult(p.returncode, p.stdout + p.stderr, time.time() - t0)
    if res.error:
        raise MachineryError(f"TLC failed on {module}/{cfg}: {res.error}\n{res.tail(60)}")
    return res


def run_tlc_many(jobs: list, parallel: int = 4) -> list:
    """jobs: list of kwargs dicts for run_tlc; runs up to `parallel` TLC processes concurrently."""
    from concurrent.futures import ThreadPoolExecutor
    with ThreadPoolExecutor(max_workers=parallel) as ex:
        futs = [ex.submit(run_tlc, **j) for j in jobs]
        return [f.result() for f in futs]


def run_apalache(module: str, inv: str, *, init: str | None = None, next_: str | None = None,
                 length: int = 0, timeout: int = 600, cinit: str | None = None) -> tuple[bool, str, float]:
    """Apalache `check`; returns (holds, output, wall).  MachineryError on tool failure."""
    with scratch("apa-") as out:
        cmd = ["apalache-mc", "check", f"--inv={inv}", f"--length={length}", f"--out-dir={out}"]
        if init:
            cmd.append(f"--init={init}")
        if next_:
            cmd.append(f"--next={next_}")
        if cinit:
            cmd.append(f"--cinit={cinit}")
        cmd.append(module + ".tla")
        t0 = time.time()
        try:
            p = subprocess.run(cmd, cwd=str(SPEC), capture_output=True, text=True, timeout=timeout)
        except subprocess.TimeoutExpired as ex:
            raise MachineryError(f"apalache timed out on {module}:{inv}") from ex
        o = p.stdout + p.stderr
        wall = time.time() - t0
    if "The outcome is: NoError" in o:
        return True, o, wall
    if "The outcome is: Error" in o or "violat" in o.lower():
        return False, o, wall
    raise MachineryError(f"apalache failed on {module}:{inv}\n" + "\n".join(o.splitlines()[-30:]))


# --------------------------------------------------------------------------------------
# known findings, verdicts, evidence
# --------------------------------------------------------------------------------------

def known_findings(prop: str) -> dict:
    f = VERIF / "known_findings.json"
    if not f.exists():
        return {}
    data = json.loads(f.read_text())
    return {x["key"]: x for x in data.get("findings", []) if x.get("property") == prop}


SELFTEST = False   # set by selftest(): verdicts are computed but nothing is written or reported as VIOLATION


class Verdict:
    """Collects violations for one property; separates known findings from new violations."""

    def __init__(self, prop: str, tier: str):
        self.prop = prop
        self.tier = tier
        self.known = known_findings(prop)
        self.violations = []     # (key, description, case)
        self.known_hits = {}     # key -> count
        self.t0 = time.time()

    def violation(self, key: str, what: str, case=None):
        """key: canonical identification of the failing input/call site."""
        if key in self.known:
            self.known_hits[key] = self.known_hits.get(key, 0) + 1
            return
        self.violations.append((key, what, case))

    def finish(self, coverage: dict, assumptions: list, level: str = "model_checking") -> int:
        wall = time.time() - self.t0
        if SELFTEST:
            keys = sorted({k for k, _, _ in self.violations})
            print(f"[{self.prop}] selftest run: {len(keys)} distinct rejection(s): {keys[:3]}")
            return 1 if keys else 0
        REPLAYS.mkdir(exist_ok=True)
        EVIDENCE.mkdir(exist_ok=True)
        for key, n in sorted(self.known_hits.items()):
            print(f"KNOWN-FINDING: property={self.prop} {key} ({self.known[key].get('what', '')}; {n} case(s) this run)")
        seen = set()
        for key, what, case in self.violations:
            if key in seen:
                continue
            seen.add(key)
            if len(seen) > int(os.environ.get('VERIF_MAX_REPORT', '25')):
                break
            h = hashlib.sha1(key.encode()).hexdigest()[:10]
            path = REPLAYS / f"{self.prop}-{h}.json"
            path.write_text(json.dumps({"property": self.prop, "tier": self.tier, "seed": seed(), "key": key,
                                        "what": what, "case": case, "repo_rev": repo_rev()}, indent=1, default=str))
            print(f"VIOLATION property={self.prop} replay={path}")
            print(f"  {key}: {what}")
        ev = {
            "property_id": self.prop,
            "tier": self.tier,
            "seed": seed(),
            "level": level,
            "coverage": coverage,
            "assumptions": assumptions,
            "wall_s": round(wall, 2),
            "violations": len(seen),
            "known_findings_hit": sorted(self.known_hits),
            "repo_rev": repo_rev(),
        }
        evdir = EVIDENCE if re.match(r"^C\d+$", self.prop) else (VERIF / "evidence_growth")     # growth checks are not listed properties
        evdir.mkdir(exist_ok=True)
        (evdir / f"{self.prop}.json").write_text(json.dumps(ev, indent=1, default=str))
        status = "VIOLATED" if seen else "held"
        print(f"[{self.prop}] {self.tier}: {status}; wall {wall:.1f}s; evidence {evdir / (self.prop + '.json')}")
        return 1 if seen else 0


def require(cond: bool, msg: str):
    if not cond:
        raise MachineryError(msg)


def chunks(seq, n):
    for i in range(0, len(seq), n):
        yield seq[i:i + n]


def dump_json(path: Path, obj):
    with open(path, "w") as f:
        json.dump(obj, f, separators=(",", ":"))
