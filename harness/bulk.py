"""Pattern B: tables recorded from the real code, checked block-wise by TLC (spec/BulkDriver.tla)."""
from __future__ import annotations

import json
from pathlib import Path

from .common import MachineryError, NCPU, dump_json, run_tlc


class BlockWriter:
    def __init__(self, d: Path):
        self.dir = d
        self.n = 0
        self.rows = 0
        self.meta = {}

    def add(self, block: dict, tag=None):
        """block must contain 'kind' and 'rows' (non-empty)."""
        if not block["rows"]:
            return
        self.n += 1
        self.rows += len(block["rows"])
        self.meta[self.n] = tag if tag is not None else block.get("kind")
        dump_json(self.dir / f"block_{self.n}.json", block)

    def close(self):
        dump_json(self.dir / "index.json", {"nblocks": self.n})


def run_bulk(module: str, d: Path, nblocks: int, *, cfg="Bulk.cfg", timeout=3600, workers=NCPU):
    """Returns (tlc_result, rows_checked, bad) with bad = list of (block, [row indices])."""
    res = run_tlc(module, cfg, env={"BULK_DIR": str(d)}, timeout=timeout, workers=workers)
    if not res.ok:
        raise MachineryError(f"bulk run of {module} did not complete:\n{res.tail()}")
    seen = {}
    for rec in res.printed:
        if isinstance(rec, dict) and "blk" in rec:
            seen[rec["blk"]] = rec
    if len(seen) != nblocks:
        raise MachineryError(f"{module}: {len(seen)} of {nblocks} blocks reported - acceptance is explicit, refusing to pass")
    rows = sum(r["n"] for r in seen.values())
    bad = [(b, sorted(r["bad"])) for b, r in sorted(seen.items()) if r["bad"]]
    return res, rows, bad


def load_block(d: Path, b: int) -> dict:
    return json.loads((d / f"block_{b}.json").read_text())


def _write_task(args):
    d, b, fn, spec = args
    block = fn(spec)
    dump_json(Path(d) / f"block_{b}.json", block)
    return b, len(block["rows"])


def parallel_blocks(d: Path, fn, specs: list, procs: int = NCPU):
    """Run fn(spec) -> block dict for every spec in forked workers, writing block_<i>.json (1-based).
    fn must be a module-level function; the real code must already be imported in the parent."""
    import multiprocessing as mp
    ctx = mp.get_context("fork")
    tasks = [(str(d), i + 1, fn, s) for i, s in enumerate(specs)]
    rows = 0
    if procs <= 1 or len(tasks) <= 1:
        for t in tasks:
            rows += _write_task(t)[1]
    else:
        with ctx.Pool(min(procs, len(tasks))) as pool:
            for _, n in pool.imap_unordered(_write_task, tasks, chunksize=1):
                rows += n
    dump_json(d / "index.json", {"nblocks": len(tasks)})
    return len(tasks), rows
