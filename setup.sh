#!/bin/sh
# Offline setup: nothing to build. Parse every TLA+ module with SANY and byte-compile the harness (to a scratch dir).
cd "$(dirname "$0")" || exit 1
set -e
mkdir -p evidence replays
/venv/bin/python -B - <<'PY'
import ast, pathlib, sys
for f in pathlib.Path("harness").rglob("*.py"):
    ast.parse(f.read_text(), str(f))
print("harness parses")
PY
cd spec
fail=0
for f in *.tla; do
  out=$(tla-sany "$f" 2>&1) || true
  if echo "$out" | grep -qiE "^\*\*\* Errors|Fatal errors|Could not parse|Parse Error"; then echo "SANY FAILED: $f"; echo "$out" | tail -5; fail=1; fi
done
[ $fail = 0 ] && echo "all TLA+ modules parse"
exit $fail
